; ---------------------------------------------------------------------------
; govc prelude: encoding of Go values (see DESIGN.md section 2.4)
; ---------------------------------------------------------------------------
; strings: a window [slo, shi) into a base byte string
(declare-datatypes ((Str 0)) (((mkstr (sbase Int) (slo Int) (shi Int)))))
; slices: reference to a backing array + offset, length, capacity
(declare-datatypes ((Slice 0)) (((mkslice (sref Int) (soff Int) (slen Int) (scap Int)))))
; non-empty interfaces (error, parser.Node, reflect.Type, ...): dynamic type id + payload reference
(declare-datatypes ((Iface 0)) (((mkiface (itype Int) (iref Int)))))
(declare-datatypes ((Fuel 0)) (((LZ) (LS (lpred Fuel)))))
(declare-sort Dec 0)
(declare-sort F64 0)
(declare-sort F32 0)
(declare-fun f64.zero () F64)
(declare-fun f32.zero () F32)
(declare-fun dec.zero () Dec)
; Go `any` as the evaluator sees it
(declare-datatypes ((Val 0)) ((
  (VNil)
  (VBool (vbool Bool))
  (VStr (vstr Str))
  (VInt (vkind Int) (vint Int))      ; the ten integer kinds; vkind is the type id
  (VF64 (vf64 F64))
  (VF32 (vf32 F32))
  (VDec (vdec Dec))
  (VJNum (vjnum Str))
  (VArr (varr Slice))
  (VObj (vobj Int))
  (VOther (votype Int) (voref Int))  ; every other dynamic type (foreign values, typed slices, pointers ...)
)))
(declare-datatypes ((Heap 0)) (((mkheap (hq (Array Int (Array Int Val))) (hm (Array Int (Array Int Val))) (hd (Array Int (Array Int Bool))) (hc (Array Int Int)) (hsp (Array Int Int)) (hsv (Array Int Int))))))
(define-fun nilslice () Slice (mkslice 0 0 0 0))
; element access on []any through a function symbol (triggers must not contain arithmetic)
(declare-fun gat ((Array Int (Array Int Val)) Slice Int) Val)
(assert (forall ((q (Array Int (Array Int Val))) (s Slice) (i Int)) (! (= (gat q s i) (select (select q (sref s)) (+ (soff s) i))) :pattern ((gat q s i)))))
(define-fun niliface () Iface (mkiface 0 0))
(define-fun MaxInt () Int 9223372036854775807)
(define-fun MinInt () Int (- 9223372036854775808))
(define-fun inint ((x Int)) Bool (and (<= MinInt x) (<= x MaxInt)))
(define-fun wrap64 ((x Int)) Int (ite (> x MaxInt) (- x 18446744073709551616) (ite (< x MinInt) (+ x 18446744073709551616) x)))
(define-fun wrapmod ((x Int) (half Int)) Int (- (mod (+ x half) (* 2 half)) half))
(define-fun tdiv ((x Int) (y Int)) Int (ite (>= x 0) (div x y) (- (div (- x) y))))
(define-fun trem ((x Int) (y Int)) Int (- x (* y (tdiv x y))))
(define-fun imin ((x Int) (y Int)) Int (ite (<= x y) x y))
(define-fun imax ((x Int) (y Int)) Int (ite (>= x y) x y))

; ---- strings ---------------------------------------------------------------
(declare-fun sbyte (Int Int) Int)                 ; byte of base at absolute offset
(declare-fun blen (Int) Int)                      ; length of a base
(define-fun gs.len ((s Str)) Int (- (shi s) (slo s)))
(define-fun gs.at ((s Str) (i Int)) Int (sbyte (sbase s) (+ (slo s) i)))
(define-fun gs.sub ((s Str) (i Int) (j Int)) Str (mkstr (sbase s) (+ (slo s) i) (+ (slo s) j)))
(define-fun gs.wf ((s Str)) Bool (and (<= 0 (slo s)) (<= (slo s) (shi s)) (<= (shi s) (blen (sbase s))) (<= (blen (sbase s)) 1099511627776)))
(declare-fun gs.byteat (Str Int) Int) ; byte i of a window, as a function symbol (a trigger without arithmetic for quantified clauses)
; @section byteat gs.byteat
(assert (forall ((s Str) (i Int)) (! (= (gs.byteat s i) (sbyte (sbase s) (+ (slo s) i))) :pattern ((gs.byteat s i)))))
; @section bytes sbyte gs.at blen gs.wf gs.len
(assert (forall ((b Int) (i Int)) (! (and (<= 0 (sbyte b i)) (<= (sbyte b i) 255)) :pattern ((sbyte b i)))))
(assert (forall ((b Int)) (! (and (<= 0 (blen b)) (<= (blen b) MaxInt)) :pattern ((blen b)))))
; @section core
(define-fun emptystr () Str (mkstr 0 0 0))
; @section bytes
(assert (= (blen 0) 0))
; @section skey skey gs.eq gs.lt klt
; content identity: equal keys <=> equal contents (only the directions listed are axiomatised)
(declare-fun skey (Str) Int)
(declare-fun klen (Int) Int)
(declare-fun kbyte (Int Int) Int)
(assert (forall ((s Str)) (! (= (klen (skey s)) (gs.len s)) :pattern ((skey s)))))
(assert (forall ((s Str) (i Int)) (! (=> (and (<= 0 i) (< i (gs.len s))) (= (kbyte (skey s) i) (gs.at s i))) :pattern ((kbyte (skey s) i)))))
(define-fun gs.eq ((a Str) (b Str)) Bool (= (skey a) (skey b)))
(declare-fun klt (Int Int) Bool)                  ; byte-wise order on contents
(define-fun gs.lt ((a Str) (b Str)) Bool (klt (skey a) (skey b)))
(assert (forall ((a Int)) (! (not (klt a a)) :pattern ((klt a a)))))
(assert (forall ((a Int) (b Int)) (! (=> (klt a b) (not (klt b a))) :pattern ((klt a b)))))
(assert (forall ((a Int) (b Int)) (! (or (klt a b) (klt b a) (= a b)) :pattern ((klt a b)))))
(assert (forall ((a Int) (b Int) (c Int)) (! (=> (and (klt a b) (klt b c)) (klt a c)) :pattern ((klt a b) (klt b c)))))
(assert (forall ((s Str)) (! (=> (= (gs.len s) 0) (= (skey s) (skey emptystr))) :pattern ((skey s)))))
; @section runes nr roff ridx isbound gs.aligned gs.runes runit decode.post
; ghost rune table of a base: nr units, roff(k) byte offset of unit k, ridx inverse on boundaries
(declare-fun nr (Int) Int)
(declare-fun roff (Int Int) Int)
(declare-fun ridx (Int Int) Int)
(assert (forall ((b Int)) (! (and (<= 0 (nr b)) (= (roff b 0) 0) (= (roff b (nr b)) (blen b))) :pattern ((nr b)))))
(assert (forall ((b Int) (i Int) (j Int)) (! (=> (and (<= 0 i) (<= i j) (<= j (nr b)))
   (and (<= (- j i) (- (roff b j) (roff b i))) (<= (- (roff b j) (roff b i)) (* 4 (- j i)))))
   :pattern ((roff b i) (roff b j)))))
(assert (forall ((b Int) (k Int)) (! (=> (and (<= 0 k) (<= k (nr b))) (= (ridx b (roff b k)) k)) :pattern ((roff b k)))))
; ridx is monotone, total on 0..blen, and counts the units that start before an offset
(assert (forall ((b Int) (o Int)) (! (=> (and (<= 0 o) (<= o (blen b))) (and (<= 0 (ridx b o)) (<= (ridx b o) (nr b)) (<= (ridx b o) o))) :pattern ((ridx b o)))))
(define-fun isbound ((b Int) (o Int)) Bool (and (<= 0 o) (<= o (blen b)) (= (roff b (ridx b o)) o)))
; Go's segmentation of a byte string never swallows an ASCII byte into a longer unit: the position of a byte below 128
; and the position after it are boundaries (continuation bytes are 0x80..0xBF)
(assert (forall ((b Int) (o Int)) (! (=> (and (<= 0 o) (< o (blen b)) (< (sbyte b o) 128)) (and (isbound b o) (isbound b (+ o 1)))) :pattern ((sbyte b o)))))
(define-fun gs.aligned ((s Str)) Bool (and (isbound (sbase s) (slo s)) (isbound (sbase s) (shi s))))
(define-fun gs.runes ((s Str)) Int (- (ridx (sbase s) (shi s)) (ridx (sbase s) (slo s))))
; unit value (rune) at unit index
(declare-fun runit (Int Int) Int)
(assert (forall ((b Int) (k Int)) (! (and (<= 0 (runit b k)) (<= (runit b k) 1114111)) :pattern ((runit b k)))))

; @section core
; ---- maps -------------------------------------------------------------------
; map[string]T: keyed by content key (skey)

; ---- numbers ----------------------------------------------------------------
(declare-fun dec.ofint (Int) Dec)
(declare-fun dec.isnan (Dec) Bool)
(declare-fun dec.isinf (Dec) Bool)
(declare-fun dec.iszero (Dec) Bool)
(define-fun isNum ((v Val)) Bool (or ((_ is VInt) v) ((_ is VF64) v) ((_ is VF32) v) ((_ is VDec) v) ((_ is VJNum) v)))
; fixed dynamic type ids (registered in this order by Gen.init): 1..10 integer kinds
; 1 int8 2 int16 3 int32 4 int64 5 int 6 uint8 7 uint16 8 uint32 9 uint64 10 uint
; 11 float64 12 float32 13 decimal128.Decimal 14 json.Number 15 string 16 bool 17 []any 18 map[string]any
(define-fun kind.lo ((k Int)) Int (ite (= k 1) (- 128) (ite (= k 2) (- 32768) (ite (= k 3) (- 2147483648) (ite (or (= k 4) (= k 5)) MinInt 0)))))
(define-fun kind.hi ((k Int)) Int (ite (= k 1) 127 (ite (= k 2) 32767 (ite (= k 3) 2147483647 (ite (or (= k 4) (= k 5)) MaxInt
   (ite (= k 6) 255 (ite (= k 7) 65535 (ite (= k 8) 4294967295 18446744073709551615))))))))
(define-fun slice.wf ((s Slice)) Bool (and (<= 0 (slen s)) (<= (slen s) (scap s)) (<= (scap s) 17592186044416) (<= 0 (soff s)) (>= (sref s) 0) (=> (= (sref s) 0) (= (scap s) 0))))
(define-fun val.wf ((v Val)) Bool (and
  (=> ((_ is VStr) v) (and (gs.wf (vstr v)) (gs.aligned (vstr v))))
  (=> ((_ is VJNum) v) (gs.wf (vjnum v)))
  (=> ((_ is VArr) v) (slice.wf (varr v)))
  (=> ((_ is VObj) v) (>= (vobj v) 0))
  (=> ((_ is VInt) v) (and (<= 1 (vkind v)) (<= (vkind v) 10) (<= (kind.lo (vkind v)) (vint v)) (<= (vint v) (kind.hi (vkind v)))))
  (=> ((_ is VOther) v) (and (>= (votype v) 19) (>= (voref v) 0)))))
; every reference inside v is below the watermark w
(define-fun val.below ((v Val) (w Int)) Bool (and
  (=> ((_ is VArr) v) (< (sref (varr v)) w))
  (=> ((_ is VObj) v) (< (vobj v) w))
  (=> ((_ is VOther) v) (< (voref v) w))))
; dynamic type id of a Val (what reflect.TypeOf would describe); 0 for nil
(define-fun val.type ((v Val)) Int
  (ite ((_ is VNil) v) 0 (ite ((_ is VBool) v) 16 (ite ((_ is VStr) v) 15 (ite ((_ is VInt) v) (vkind v)
  (ite ((_ is VF64) v) 11 (ite ((_ is VF32) v) 12 (ite ((_ is VDec) v) 13 (ite ((_ is VJNum) v) 14
  (ite ((_ is VArr) v) 17 (ite ((_ is VObj) v) 18 (votype v))))))))))))
; ---- misc functions used by the translator ---------------------------------
(declare-fun gs.concat (Str Str) Str)
(declare-fun gs.ofbytes ((Array Int Int) Int Int) Str)
(declare-fun val.ifaceeq (Val Val) Bool)
; heights of finite trees (termination measures of the recursions over the AST and over values; C09)
(declare-fun nheight (Iface) Int)
(declare-fun vheight (Val) Int)
; @section heights nheight vheight
(assert (forall ((n Iface)) (! (>= (nheight n) 0) :pattern ((nheight n)))))
(assert (forall ((v Val)) (! (>= (vheight v) 0) :pattern ((vheight v)))))
; @section core
; @section ifaceeq val.ifaceeq
(assert (forall ((a Val)) (! (=> (not ((_ is VArr) a)) (val.ifaceeq a a)) :pattern ((val.ifaceeq a a)))))
; @section core
; allocation limit: the largest element count a make() may ask for (anything above is a runtime panic)
(define-fun MaxAlloc () Int 17592186044416)
; floats are uninterpreted except for the facts listed here (DESIGN.md 2.3)
(declare-fun f64.add (F64 F64) F64) (declare-fun f64.sub (F64 F64) F64) (declare-fun f64.mul (F64 F64) F64) (declare-fun f64.div (F64 F64) F64)
(declare-fun f64.neg (F64) F64) (declare-fun f64.eq (F64 F64) Bool) (declare-fun f64.lt (F64 F64) Bool) (declare-fun f64.le (F64 F64) Bool)
(declare-fun f64.ofint (Int) F64) (declare-fun f64.toint (F64) Int) (declare-fun f64.of32 (F32) F64) (declare-fun f32.of64 (F64) F32)
(declare-fun f64.inintrange (F64 Int Int) Bool)
(declare-fun f32.add (F32 F32) F32) (declare-fun f32.sub (F32 F32) F32) (declare-fun f32.mul (F32 F32) F32) (declare-fun f32.div (F32 F32) F32)
(declare-fun f32.neg (F32) F32) (declare-fun f32.eq (F32 F32) Bool) (declare-fun f32.lt (F32 F32) Bool) (declare-fun f32.le (F32 F32) Bool)
(declare-fun f32.isnan (F32) Bool) (declare-fun f32.ofint (Int) F32) (declare-fun f32.toint (F32) Int) (declare-fun f32.inintrange (F32 Int Int) Bool)
(declare-fun f64.isnan (F64) Bool) (declare-fun f64.isinf (F64) Bool) (declare-fun f64.floor (F64) F64)
(declare-fun f64.isint (F64) Bool)
; utf8.DecodeRuneInString on window s yields rune r of size sz
(define-fun decode.post ((s Str) (r Int) (sz Int)) Bool
  (and (=> (= (gs.len s) 0) (and (= sz 0) (= r 65533)))
       (=> (> (gs.len s) 0) (and (<= 1 sz) (<= sz 4) (<= sz (gs.len s))))
       (<= 0 r) (<= r 1114111)
       (=> (and (> (gs.len s) 0) (< (gs.at s 0) 128)) (and (= sz 1) (= r (gs.at s 0))))
       (=> (and (> (gs.len s) 0) (>= (gs.at s 0) 128)) (>= r 128))
       (=> (and (= sz 1) (>= r 128)) (= r 65533))
       (=> (= r 65533) (or (= sz 0) (= sz 1) (= sz 3)))
       (=> (and (> (gs.len s) 0) (isbound (sbase s) (slo s)) (< (ridx (sbase s) (slo s)) (nr (sbase s))))
           (and (= (+ (slo s) sz) (roff (sbase s) (+ (ridx (sbase s) (slo s)) 1)))
                (= r (runit (sbase s) (ridx (sbase s) (slo s))))))))
; ---- decimal128 (third-party; uninterpreted, facts are assumptions listed in the evidence) ----
(declare-fun dec.add (Dec Dec) Dec) (declare-fun dec.sub (Dec Dec) Dec) (declare-fun dec.mul (Dec Dec) Dec) (declare-fun dec.quo (Dec Dec) Dec)
(declare-fun dec.quorem.q (Dec Dec) Dec) (declare-fun dec.quorem.r (Dec Dec) Dec)
(declare-fun dec.neg (Dec) Dec) (declare-fun dec.abs (Dec) Dec) (declare-fun dec.ceil (Dec) Dec) (declare-fun dec.floor (Dec) Dec)
(declare-fun dec.cmp (Dec Dec) Int) (declare-fun dec.equal (Dec Dec) Bool) (declare-fun dec.compare (Dec Dec) Int)
(declare-fun dec.real (Dec) Real)
(define-fun dec.isfin ((d Dec)) Bool (and (not (dec.isnan d)) (not (dec.isinf d))))
(declare-fun dec.ofuint (Int) Dec) (declare-fun dec.off64 (F64) Dec) (declare-fun dec.off32 (F32) Dec)
(declare-fun dec.parse (Int) Dec) (declare-fun dec.parseok (Int) Bool)
(declare-fun dec.unmarshal (Int) Dec) (declare-fun dec.unmarshalok (Int) Bool)
(declare-fun dec.int64 (Dec) Int) (declare-fun dec.int64ok (Dec) Bool)
(declare-fun dec.isintegral (Dec) Bool)
(declare-fun dec.str (Dec) Str)
(declare-fun jnum.int64 (Int) Int) (declare-fun jnum.int64ok (Int) Bool) (declare-fun jnum.float64ok (Int) Bool)
; @section decfacts dec.ofint dec.cmp dec.equal dec.compare dec.int64 dec.zero dec.ofuint
(assert (forall ((i Int)) (! (and (dec.isfin (dec.ofint i)) (= (dec.real (dec.ofint i)) (to_real i)) (dec.isintegral (dec.ofint i))) :pattern ((dec.ofint i)))))
(assert (forall ((i Int)) (! (and (dec.isfin (dec.ofuint i)) (= (dec.real (dec.ofuint i)) (to_real i)) (dec.isintegral (dec.ofuint i))) :pattern ((dec.ofuint i)))))
(assert (and (dec.isfin dec.zero) (= (dec.real dec.zero) 0.0) (dec.iszero dec.zero)))
(assert (forall ((x Dec) (y Dec)) (! (and (<= (- 2) (dec.cmp x y)) (<= (dec.cmp x y) 1)
   (= (= (dec.cmp x y) (- 2)) (or (dec.isnan x) (dec.isnan y)))
   (=> (and (dec.isfin x) (dec.isfin y)) (and (= (= (dec.cmp x y) 0) (= (dec.real x) (dec.real y))) (= (= (dec.cmp x y) (- 1)) (< (dec.real x) (dec.real y))))))
   :pattern ((dec.cmp x y)))))
(assert (forall ((x Dec) (y Dec)) (! (= (dec.equal x y) (= (dec.cmp x y) 0)) :pattern ((dec.equal x y)))))
(assert (forall ((x Dec) (y Dec)) (! (= (dec.compare x y) (ite (dec.isnan x) (ite (dec.isnan y) 0 (- 1)) (ite (dec.isnan y) 1 (dec.cmp x y)))) :pattern ((dec.compare x y)))))
(assert (forall ((x Dec)) (! (=> (dec.isfin x) (= (dec.iszero x) (= (dec.real x) 0.0))) :pattern ((dec.iszero x)))))
; @section core
(define-fun cmp.less ((c Int)) Bool (= c (- 1)))
(define-fun cmp.greater ((c Int)) Bool (= c 1))
(define-fun cmp.le ((c Int)) Bool (or (= c (- 1)) (= c 0)))
(define-fun cmp.ge ((c Int)) Bool (or (= c 1) (= c 0)))
(declare-fun rtype.str (Int) Str)
(declare-fun gs.quote (Int) Str) (declare-fun gs.itoa (Int) Str)
(declare-fun B_len!alias () Int)
(declare-fun gs.index (Int Int) Int) (declare-fun gs.lastindex (Int Int) Int)
(declare-fun gs.hasprefix (Int Int) Bool) (declare-fun gs.hassuffix (Int Int) Bool)
(declare-fun gs.tolower (Int) Str) (declare-fun gs.toupper (Int) Str) (declare-fun gs.replace (Int Int Int Int) Str)
(declare-fun gs.trim (Int Int) Str) (declare-fun gs.trimleft (Int Int) Str) (declare-fun gs.trimright (Int Int) Str)
(declare-fun gs.trimspace (Int) Str) (declare-fun gs.trimspaceleft (Int) Str) (declare-fun gs.trimspaceright (Int) Str)
(declare-fun atoi.ok (Int) Bool) (declare-fun atoi.val (Int) Int)
(declare-fun f64.ceil (F64) F64) (declare-fun f64.abs (F64) F64) (declare-fun f64.mod (F64 F64) F64)
; C18: a number value is finite (JSON has no NaN or infinity).  c18.ih is the induction hypothesis of the C18 sweep
; ("every value received from the caller, from a callee or read from an array or object is finite"); it is a
; free Boolean, so obligations of other properties do not depend on it.
(declare-fun f32.isinf (F32) Bool)
(declare-fun jnum.valid (Int) Bool) ; the text is a number in JSON syntax (what a JSON decoder stores in a json.Number)
(define-fun val.finite ((v Val)) Bool (and (=> ((_ is VDec) v) (dec.isfin (vdec v)))
   (=> ((_ is VJNum) v) (jnum.valid (skey (vjnum v))))
   (=> ((_ is VF64) v) (and (not (f64.isnan (vf64 v))) (not (f64.isinf (vf64 v)))))
   (=> ((_ is VF32) v) (and (not (f32.isnan (vf32 v))) (not (f32.isinf (vf32 v)))))))
(declare-const c18.ih Bool)
; @section decfin f64.of32 dec.abs dec.neg dec.ceil dec.floor dec.off64 dec.off32 dec.parse dec.unmarshal f64.abs f64.ceil f64.neg f64.floor
; finiteness is preserved by the sign and rounding operations; conversions of finite values are finite; parsing the
; text of a JSON number succeeds only with a finite result (decimal128 reports out-of-range exponents as errors)
(assert (forall ((d Dec)) (! (=> (dec.isfin d) (dec.isfin (dec.abs d))) :pattern ((dec.abs d)))))
(assert (forall ((d Dec)) (! (=> (dec.isfin d) (dec.isfin (dec.neg d))) :pattern ((dec.neg d)))))
(assert (forall ((d Dec)) (! (=> (dec.isfin d) (dec.isfin (dec.ceil d))) :pattern ((dec.ceil d)))))
(assert (forall ((d Dec)) (! (=> (dec.isfin d) (dec.isfin (dec.floor d))) :pattern ((dec.floor d)))))
(assert (forall ((f F64)) (! (=> (and (not (f64.isnan f)) (not (f64.isinf f))) (dec.isfin (dec.off64 f))) :pattern ((dec.off64 f)))))
(assert (forall ((f F32)) (! (=> (and (not (f32.isnan f)) (not (f32.isinf f))) (dec.isfin (dec.off32 f))) :pattern ((dec.off32 f)))))
(assert (forall ((f F32)) (! (=> (and (not (f32.isnan f)) (not (f32.isinf f))) (and (not (f64.isnan (f64.of32 f))) (not (f64.isinf (f64.of32 f))))) :pattern ((f64.of32 f)))))
(assert (forall ((k Int)) (! (=> (and (jnum.valid k) (dec.parseok k)) (dec.isfin (dec.parse k))) :pattern ((dec.parse k)))))
(assert (forall ((k Int)) (! (=> (dec.unmarshalok k) (dec.isfin (dec.unmarshal k))) :pattern ((dec.unmarshal k)))))
(assert (forall ((f F64)) (! (=> (and (not (f64.isnan f)) (not (f64.isinf f))) (and (not (f64.isnan (f64.abs f))) (not (f64.isinf (f64.abs f))))) :pattern ((f64.abs f)))))
(assert (forall ((f F64)) (! (=> (and (not (f64.isnan f)) (not (f64.isinf f))) (and (not (f64.isnan (f64.neg f))) (not (f64.isinf (f64.neg f))))) :pattern ((f64.neg f)))))
(assert (forall ((f F64)) (! (=> (and (not (f64.isnan f)) (not (f64.isinf f))) (and (not (f64.isnan (f64.ceil f))) (not (f64.isinf (f64.ceil f))))) :pattern ((f64.ceil f)))))
(assert (forall ((f F64)) (! (=> (and (not (f64.isnan f)) (not (f64.isinf f))) (and (not (f64.isnan (f64.floor f))) (not (f64.isinf (f64.floor f))))) :pattern ((f64.floor f)))))
; @section core
(declare-fun gs.units (Str) Int)
(define-fun gs.whole ((s Str)) Bool (and (= (slo s) 0) (= (shi s) (blen (sbase s)))))
(define-fun gs.subwindow ((r Str) (s Str)) Bool (and (= (sbase r) (sbase s)) (<= (slo s) (slo r)) (<= (slo r) (shi r)) (<= (shi r) (shi s))))
; utf8.DecodeLastRuneInString (assumption A7: backward and forward segmentation agree)
(define-fun decode.lastpost ((s Str) (r Int) (sz Int)) Bool
  (and (=> (= (gs.len s) 0) (and (= sz 0) (= r 65533)))
       (=> (> (gs.len s) 0) (and (<= 1 sz) (<= sz 4) (<= sz (gs.len s))))
       (<= 0 r) (<= r 1114111)
       (=> (and (> (gs.len s) 0) (isbound (sbase s) (shi s)) (> (ridx (sbase s) (shi s)) 0))
           (and (= (- (shi s) sz) (roff (sbase s) (- (ridx (sbase s) (shi s)) 1)))
                (= r (runit (sbase s) (- (ridx (sbase s) (shi s)) 1)))))))
; @section units gs.units
(assert (forall ((s Str)) (! (=> (gs.wf s) (and (<= 0 (gs.units s)) (<= (gs.units s) (gs.len s)) (=> (gs.aligned s) (= (gs.units s) (gs.runes s))))) :pattern ((gs.units s)))))
; @section core
; @section floatfacts f64.lt f64.le f64.eq f64.isint f64.inintrange f32.lt f32.le f32.eq f32.inintrange
(assert (forall ((a F64) (b F64)) (! (or (f64.lt a b) (f64.lt b a) (f64.eq a b) (f64.isnan a) (f64.isnan b)) :pattern ((f64.lt a b)))))
(assert (forall ((a F64) (b F64)) (! (= (f64.le a b) (or (f64.lt a b) (f64.eq a b))) :pattern ((f64.le a b)))))
(assert (forall ((a F64) (b F64)) (! (=> (or (f64.isnan a) (f64.isnan b)) (and (not (f64.eq a b)) (not (f64.lt a b)))) :pattern ((f64.eq a b)))))
(assert (forall ((a F64) (b F64)) (! (=> (or (f64.isnan a) (f64.isnan b)) (not (f64.lt a b))) :pattern ((f64.lt a b)))))
(assert (forall ((a F64) (b F64)) (! (=> (f64.lt a b) (and (not (f64.lt b a)) (not (f64.eq a b)))) :pattern ((f64.lt a b)))))
(assert (forall ((a F64) (b F64)) (! (= (f64.eq a b) (f64.eq b a)) :pattern ((f64.eq a b)))))
(assert (forall ((a F64)) (! (= (f64.isint a) (f64.eq a (f64.floor a))) :pattern ((f64.floor a)))))
(assert (forall ((a F64)) (! (=> (f64.isnan a) (f64.isnan (f64.floor a))) :pattern ((f64.floor a)))))
(assert (forall ((i Int)) (! (not (f64.isnan (f64.ofint i))) :pattern ((f64.ofint i)))))
(assert (forall ((i Int)) (! (not (f32.isnan (f32.ofint i))) :pattern ((f32.ofint i)))))
(assert (forall ((a F32) (b F32)) (! (=> (or (f32.isnan a) (f32.isnan b)) (not (f32.eq a b))) :pattern ((f32.eq a b)))))
(assert (forall ((a F32) (b F32)) (! (= (f32.eq a b) (f32.eq b a)) :pattern ((f32.eq a b)))))
; 2^63 is the first float value outside the int range (float64(MaxInt) rounds to it); float64(MinInt) is exact
(assert (forall ((x F64)) (! (= (f64.inintrange x MinInt MaxInt) (and (f64.le (f64.ofint MinInt) x) (f64.lt x (f64.ofint 9223372036854775808)))) :pattern ((f64.inintrange x MinInt MaxInt)))))
(assert (forall ((a F32) (b F32)) (! (or (f32.lt a b) (f32.lt b a) (f32.eq a b) (f32.isnan a) (f32.isnan b)) :pattern ((f32.lt a b)))))
(assert (forall ((a F32) (b F32)) (! (= (f32.le a b) (or (f32.lt a b) (f32.eq a b))) :pattern ((f32.le a b)))))
(assert (forall ((a F32) (b F32)) (! (=> (or (f32.isnan a) (f32.isnan b)) (not (f32.lt a b))) :pattern ((f32.lt a b)))))
(assert (forall ((a F32) (b F32)) (! (=> (f32.lt a b) (and (not (f32.lt b a)) (not (f32.eq a b)))) :pattern ((f32.lt a b)))))
(assert (forall ((x F32)) (! (= (f32.inintrange x MinInt MaxInt) (and (f32.le (f32.ofint MinInt) x) (f32.lt x (f32.ofint 9223372036854775808)))) :pattern ((f32.inintrange x MinInt MaxInt)))))
(assert (forall ((x F32)) (! (= (f64.isnan (f64.of32 x)) (f32.isnan x)) :pattern ((f64.of32 x)))))
; @section core
(declare-fun errors.isf (Iface Iface) Bool)
(declare-fun rd.src (Int) Int) (declare-fun dec.src (Int) Int)
(declare-fun json.prefixok (Int) Bool) (declare-fun json.restblank (Int) Bool) (declare-fun json.isstring (Int) Bool) (declare-fun json.isnumber (Int) Bool)
(define-fun json.text ((k Int)) Bool (and (json.prefixok k) (json.restblank k)))

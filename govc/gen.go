package main

import (
	"fmt"
	"go/token"
	"go/types"
	"os"
	"sort"
	"strings"

	"golang.org/x/tools/go/packages"
	"golang.org/x/tools/go/ssa"
	"golang.org/x/tools/go/ssa/ssautil"
)

const repoModule = "github.com/woodsbury/jmespath"

type Term struct {
	S    string
	Sort string
}

type Gen struct {
	supportFuncs []string // non-recursive callees whose contracts joined the property through extendTags
	usedASTHeight bool
	Prog    *ssa.Program
	Pkgs    []*ssa.Package
	PkgByPath map[string]*ssa.Package
	Fset    *token.FileSet
	Spec    *Spec
	RepoDir string

	typeIDs   map[string]int
	typeNames []string
	typeByID  map[int]types.Type
	nextTypeID int

	structSorts map[string]*StructSort // key: qualified struct name
	structOrder []string
	families    map[string]string // family -> sort
	famOrder    []string
	strConsts   map[string]int
	strConstOrder []string
	globals     map[string]string // smt name -> sort
	globalOrder []string
	globalDistinct []string
	extraDecls  []string
	retDeclared map[string]bool
	funcIDs     map[string]int
	effects     map[*ssa.Function]map[string]bool
	Funcs       map[string]*ssa.Function // contract key -> function
	Unsupported map[string][]string      // function key -> reasons
	reach       map[*ssa.Function]bool
	recursive   map[*ssa.Function]bool
}

type StructSort struct {
	Name   string // SMT sort name
	Ctor   string
	Fields []string // accessor names
	FSorts []string
	T      *types.Struct
	Opaque bool
}

func smtIdent(s string) string {
	var b strings.Builder
	for _, r := range s {
		switch {
		case r >= 'a' && r <= 'z', r >= 'A' && r <= 'Z', r >= '0' && r <= '9', r == '_':
			b.WriteRune(r)
		case r == '.' || r == '/':
			b.WriteByte('_')
		case r == '*':
			b.WriteString("P")
		default:
			b.WriteString(fmt.Sprintf("x%x", r))
		}
	}
	return b.String()
}

func LoadRepo(dir string) (*Gen, error) {
	os.Setenv("PATH", "/opt/veriftools/go1.26.8/bin:"+os.Getenv("PATH"))
	cfg := &packages.Config{
		Mode:       packages.LoadAllSyntax,
		Dir:        dir,
		BuildFlags: []string{"-tags=verif"},
		Env:        append(os.Environ(), "GOFLAGS=-mod=mod", "GOPROXY=off", "GOSUMDB=off", "GOTOOLCHAIN=local", "PATH=/opt/veriftools/go1.26.8/bin:"+os.Getenv("PATH")),
	}
	pkgs, err := packages.Load(cfg, "./...")
	if err != nil {
		return nil, err
	}
	var errs []string
	packages.Visit(pkgs, nil, func(p *packages.Package) {
		if strings.HasPrefix(p.PkgPath, repoModule) {
			for _, e := range p.Errors {
				errs = append(errs, e.Error())
			}
		}
	})
	if len(errs) > 0 {
		return nil, fmt.Errorf("repository does not type-check: %s", strings.Join(errs, "; "))
	}
	prog, spkgs := ssautil.Packages(pkgs, ssa.GlobalDebug)
	prog.Build()
	g := &Gen{Prog: prog, Fset: prog.Fset, RepoDir: dir, PkgByPath: map[string]*ssa.Package{},
		typeIDs: map[string]int{}, typeByID: map[int]types.Type{}, structSorts: map[string]*StructSort{},
		families: map[string]string{}, strConsts: map[string]int{}, globals: map[string]string{},
		effects: map[*ssa.Function]map[string]bool{}, Funcs: map[string]*ssa.Function{}, Unsupported: map[string][]string{}}
	for _, p := range spkgs {
		if p == nil {
			continue
		}
		g.Pkgs = append(g.Pkgs, p)
		g.PkgByPath[p.Pkg.Path()] = p
	}
	sort.Slice(g.Pkgs, func(i, j int) bool { return g.Pkgs[i].Pkg.Path() < g.Pkgs[j].Pkg.Path() })
	// index all functions and methods of the repository
	for _, p := range g.Pkgs {
		for _, m := range p.Members {
			switch m := m.(type) {
			case *ssa.Function:
				g.Funcs[FuncKey(m)] = m
				g.indexAnon(m)
			case *ssa.Type:
				for _, t := range []types.Type{m.Type(), types.NewPointer(m.Type())} {
					ms := prog.MethodSets.MethodSet(t)
					for i := 0; i < ms.Len(); i++ {
						f := prog.MethodValue(ms.At(i))
						if f != nil && f.Synthetic == "" && f.Pkg == p {
							g.Funcs[FuncKey(f)] = f
							g.indexAnon(f)
						}
					}
				}
			}
		}
	}
	for k, id := range fixedTypeIDs {
		g.typeIDs[k] = id
	}
	// package-level error sentinels (errors.New in init): distinct, non-nil, never written
	for _, p := range g.Pkgs {
		var names []string
		for n, m := range p.Members {
			if gl, ok := m.(*ssa.Global); ok {
				if pt, ok := gl.Type().(*types.Pointer); ok && g.SortOf(pt.Elem()) == "Iface" && types.Identical(pt.Elem(), types.Universe.Lookup("error").Type()) {
					names = append(names, n)
				}
			}
		}
		sort.Strings(names)
		for _, n := range names {
			g.Global("g_"+smtIdent(p.Pkg.Path()+"."+n), "Iface", true)
		}
	}
	return g, nil
}

// FuncKey is the contract key of a function: pkgpath.name or pkgpath.Recv.name.
func FuncKey(f *ssa.Function) string {
	if f == nil {
		return "?"
	}
	pkg := ""
	if f.Pkg != nil {
		pkg = f.Pkg.Pkg.Path()
	} else if f.Object() != nil && f.Object().Pkg() != nil {
		pkg = f.Object().Pkg().Path()
	}
	if recv := f.Signature.Recv(); recv != nil {
		t := recv.Type()
		if p, ok := t.(*types.Pointer); ok {
			t = p.Elem()
		}
		if n, ok := t.(*types.Named); ok {
			if n.Obj().Pkg() != nil {
				pkg = n.Obj().Pkg().Path()
			}
			return pkg + "." + n.Obj().Name() + "." + f.Name()
		}
	}
	if f.Parent() != nil {
		// function literal: go/ssa names it parent$n; the key is the parent's key with that name in place of the parent's
		pk := FuncKey(f.Parent())
		if i := strings.LastIndex(pk, "."); i >= 0 {
			return pk[:i+1] + f.Name()
		}
		return pk + "$" + f.Name()
	}
	name := f.Name()
	if i := strings.Index(name, "["); i > 0 {
		name = name[:i] // instance of a generic function: contracts are keyed by the generic name
	}
	if pkg == "" && f.Origin() != nil && f.Origin().Pkg != nil {
		pkg = f.Origin().Pkg.Pkg.Path()
	}
	return pkg + "." + name
}

func (g *Gen) IsRepoFunc(f *ssa.Function) bool {
	return f != nil && f.Pkg != nil && strings.HasPrefix(f.Pkg.Pkg.Path(), repoModule) && len(f.Blocks) > 0
}

// ---------------------------------------------------------------------------
// types -> sorts

func typeKey(t types.Type) string {
	t = types.Unalias(t)
	if b, ok := t.(*types.Basic); ok {
		switch b.Kind() {
		case types.Uint8:
			return "uint8"
		case types.Int32:
			return "int32"
		}
	}
	s := types.TypeString(t, nil)
	s = strings.ReplaceAll(s, "interface{}", "any")
	return s
}

var fixedTypeIDs = map[string]int{"int8": 1, "int16": 2, "int32": 3, "int64": 4, "int": 5, "uint8": 6, "uint16": 7, "uint32": 8,
	"uint64": 9, "uint": 10, "float64": 11, "float32": 12, decPkg + ".Decimal": 13, "encoding/json.Number": 14, "string": 15, "bool": 16,
	"[]any": 17, "map[string]any": 18, "*reflect.rtype": 19}

func (g *Gen) TypeID(t types.Type) int {
	k := typeKey(t)
	if id, ok := g.typeIDs[k]; ok {
		return id
	}
	if g.nextTypeID < 20 {
		g.nextTypeID = 20
	}
	id := g.nextTypeID
	g.nextTypeID++
	g.typeIDs[k] = id
	g.typeNames = append(g.typeNames, k)
	g.typeByID[id] = t
	return id
}

func isAny(t types.Type) bool {
	i, ok := t.Underlying().(*types.Interface)
	return ok && i.NumMethods() == 0
}

func isNamed(t types.Type, pkg, name string) bool {
	n, ok := t.(*types.Named)
	if !ok {
		if a, ok2 := t.(*types.Alias); ok2 {
			return isNamed(types.Unalias(a), pkg, name)
		}
		return false
	}
	return n.Obj().Name() == name && n.Obj().Pkg() != nil && n.Obj().Pkg().Path() == pkg
}

const decPkg = "github.com/woodsbury/decimal128"

// SortOf maps a Go type to an SMT sort name.
func (g *Gen) SortOf(t types.Type) string {
	t = types.Unalias(t)
	if isNamed(t, decPkg, "Decimal") {
		return "Dec"
	}
	switch u := t.Underlying().(type) {
	case *types.Basic:
		switch {
		case u.Info()&types.IsBoolean != 0:
			return "Bool"
		case u.Info()&types.IsInteger != 0:
			return "Int"
		case u.Info()&types.IsString != 0:
			return "Str"
		case u.Kind() == types.Float64 || u.Kind() == types.UntypedFloat:
			return "F64"
		case u.Kind() == types.Float32:
			return "F32"
		case u.Kind() == types.UnsafePointer:
			return "Int"
		case u.Kind() == types.UntypedNil:
			return "Val"
		}
	case *types.Pointer, *types.Map, *types.Signature, *types.Chan:
		return "Int"
	case *types.Slice:
		return "Slice"
	case *types.Interface:
		if u.NumMethods() == 0 {
			return "Val"
		}
		return "Iface"
	case *types.Struct:
		return g.structSort(t).Name
	case *types.Array:
		return "(Array Int " + g.SortOf(u.Elem()) + ")"
	case *types.Tuple:
		return "Tuple"
	}
	return "Int"
}

func structName(t types.Type) string {
	t = types.Unalias(t)
	if n, ok := t.(*types.Named); ok {
		if n.Obj().Pkg() != nil {
			return n.Obj().Pkg().Path() + "." + n.Obj().Name()
		}
		return n.Obj().Name()
	}
	return "anon." + smtIdent(typeKey(t))
}

func shortStructName(t types.Type) string {
	n := structName(t)
	n = strings.TrimPrefix(n, repoModule+"/internal/")
	n = strings.TrimPrefix(n, repoModule+".")
	n = strings.TrimPrefix(n, repoModule)
	return smtIdent(n)
}

func (g *Gen) structSort(t types.Type) *StructSort {
	key := structName(t)
	if s, ok := g.structSorts[key]; ok {
		return s
	}
	st := t.Underlying().(*types.Struct)
	s := &StructSort{Name: "S_" + shortStructName(t), T: st}
	s.Ctor = "mk_" + shortStructName(t)
	g.structSorts[key] = s
	for i := 0; i < st.NumFields(); i++ {
		s.Fields = append(s.Fields, fmt.Sprintf("%s_%s", shortStructName(t), st.Field(i).Name()))
		s.FSorts = append(s.FSorts, g.SortOf(st.Field(i).Type()))
	}
	g.structOrder = append(g.structOrder, key)
	return s
}

// Zero returns the zero value of a Go type.
func (g *Gen) Zero(t types.Type) string {
	t = types.Unalias(t)
	switch s := g.SortOf(t); s {
	case "Bool":
		return "false"
	case "Int":
		return "0"
	case "Str":
		return "emptystr"
	case "F64":
		return "f64.zero"
	case "F32":
		return "f32.zero"
	case "Dec":
		return "dec.zero"
	case "Slice":
		return "nilslice"
	case "Val":
		return "VNil"
	case "Iface":
		return "niliface"
	default:
		switch u := t.Underlying().(type) {
		case *types.Struct:
			ss := g.structSort(t)
			if len(ss.Fields) == 0 {
				return ss.Ctor
			}
			var a []string
			for i := 0; i < u.NumFields(); i++ {
				a = append(a, g.Zero(u.Field(i).Type()))
			}
			return "(" + ss.Ctor + " " + strings.Join(a, " ") + ")"
		case *types.Array:
			return "((as const " + s + ") " + g.Zero(u.Elem()) + ")"
		}
	}
	return "0"
}

func sortIdent(s string) string {
	s = strings.NewReplacer("(Array Int ", "A", ")", "", " ", "").Replace(s)
	return smtIdent(s)
}

// Family returns (declaring on demand) the heap family name.
// retRel: the graph of a repository function as an uninterpreted relation over (receiver, arguments, results).
// Every call of the function assumes the relation for its actual arguments and results; a clause can then say
// "this value is what f returned for those arguments" (returns("pkg.f", args..., results...)).
func (g *Gen) retRel(fn *ssa.Function) (string, []string) {
	name := "ret_" + smtIdent(shortKey(FuncKey(fn)))
	var sorts []string
	for _, p := range fn.Params {
		sorts = append(sorts, g.SortOf(p.Type()))
	}
	res := fn.Signature.Results()
	for i := 0; i < res.Len(); i++ {
		sorts = append(sorts, g.SortOf(res.At(i).Type()))
	}
	if g.retDeclared == nil {
		g.retDeclared = map[string]bool{}
	}
	if !g.retDeclared[name] {
		g.retDeclared[name] = true
		g.extraDecls = append(g.extraDecls, fmt.Sprintf("(declare-fun %s (%s) Bool)", name, strings.Join(sorts, " ")))
	}
	return name, sorts
}

func (g *Gen) funcByShortKey(k string) *ssa.Function {
	for key, f := range g.Funcs {
		if shortKey(key) == k || key == k {
			return f
		}
	}
	return nil
}

// indexAnon registers the function literals of f (keys parent$1, parent$2, ...): their bodies are verified like any
// other function, their captured variables are pointers into the enclosing activation
func (g *Gen) indexAnon(f *ssa.Function) {
	for _, an := range f.AnonFuncs {
		g.Funcs[FuncKey(an)] = an
		g.indexAnon(an)
	}
}

// FuncID: a number that identifies a named function used as a value (strings.TrimLeftFunc(s, unicode.IsSpace))
func (g *Gen) FuncID(key string) int {
	if g.funcIDs == nil {
		g.funcIDs = map[string]int{}
	}
	if id, ok := g.funcIDs[key]; ok {
		return id
	}
	id := 100000 + len(g.funcIDs)
	g.funcIDs[key] = id
	return id
}

func (g *Gen) Family(name, sort string) string {
	if _, ok := g.families[name]; !ok {
		g.families[name] = sort
		g.famOrder = append(g.famOrder, name)
	}
	return name
}

func (g *Gen) FieldFamily(structT types.Type, i int) string {
	st := structT.Underlying().(*types.Struct)
	return g.Family("F_"+shortStructName(structT)+"_"+st.Field(i).Name(), "(Array Int "+g.SortOf(st.Field(i).Type())+")")
}

func (g *Gen) SeqFamily(elemSort string) string {
	name := "Q_" + sortIdent(elemSort)
	if _, ok := g.families[name]; !ok && elemSort != "Val" {
		// element access through a function symbol, so that triggers contain no arithmetic
		fn := gatName(elemSort)
		g.extraDecls = append(g.extraDecls,
			fmt.Sprintf("(declare-fun %s ((Array Int (Array Int %s)) Slice Int) %s)", fn, elemSort, elemSort),
			fmt.Sprintf("(assert (forall ((q (Array Int (Array Int %s))) (s Slice) (i Int)) (! (= (%s q s i) (select (select q (sref s)) (+ (soff s) i))) :pattern ((%s q s i)))))", elemSort, fn, fn))
	}
	return g.Family(name, "(Array Int (Array Int "+elemSort+"))")
}

func gatName(elemSort string) string {
	if elemSort == "Val" {
		return "gat"
	}
	return "gat_" + sortIdent(elemSort)
}

func (g *Gen) CellFamily(sort string) string {
	return g.Family("C_"+sortIdent(sort), "(Array Int "+sort+")")
}

// maps: three families per value sort
func (g *Gen) MapFamilies(valSort string) (val, dom, card string) {
	id := sortIdent(valSort)
	return g.Family("M_"+id, "(Array Int (Array Int "+valSort+"))"),
		g.Family("MD_"+id, "(Array Int (Array Int Bool))"),
		g.Family("MC_"+id, "(Array Int Int)")
}

// StrConst interns a string constant as a base with known bytes.
func (g *Gen) StrConst(s string) string {
	if s == "" {
		return "emptystr"
	}
	id, ok := g.strConsts[s]
	if !ok {
		id = -(len(g.strConsts) + 1) // negative base ids: constants
		g.strConsts[s] = id
		g.strConstOrder = append(g.strConstOrder, s)
	}
	return fmt.Sprintf("(mkstr (- %d) 0 %d)", -id, len(s))
}

func (g *Gen) Global(name, sort string, distinct bool) string {
	if _, ok := g.globals[name]; !ok {
		g.globals[name] = sort
		g.globalOrder = append(g.globalOrder, name)
		if distinct {
			g.globalDistinct = append(g.globalDistinct, name)
		}
	}
	return name
}

// EmitDecls writes everything that was declared on demand.
func (g *Gen) EmitDecls(b *strings.Builder) {
	for _, k := range g.structOrder {
		s := g.structSorts[k]
		if len(s.Fields) == 0 {
			fmt.Fprintf(b, "(declare-datatypes ((%s 0)) (((%s))))\n", s.Name, s.Ctor)
			continue
		}
		var fs []string
		for i := range s.Fields {
			fs = append(fs, fmt.Sprintf("(%s %s)", s.Fields[i], s.FSorts[i]))
		}
		fmt.Fprintf(b, "(declare-datatypes ((%s 0)) (((%s %s))))\n", s.Name, s.Ctor, strings.Join(fs, " "))
	}
	for _, s := range g.strConstOrder {
		id := -g.strConsts[s]
		// facts about one constant are grouped in a block that is only included when the constant is mentioned
		fmt.Fprintf(b, "; @const (mkstr (- %d) \n", id)
		fmt.Fprintf(b, "(assert (= (blen (- %d)) %d))\n", id, len(s))
		for i := 0; i < len(s); i++ {
			fmt.Fprintf(b, "(assert (= (sbyte (- %d) %d) %d))\n", id, i, s[i])
		}
		// constants are valid UTF-8 text: their rune table is known
		k := 0
		for off, r := range s {
			fmt.Fprintf(b, "(assert (= (roff (- %d) %d) %d))\n(assert (= (runit (- %d) %d) %d))\n", id, k, off, id, k, r)
			k++
		}
		fmt.Fprintf(b, "(assert (= (nr (- %d)) %d))\n", id, k)
		// content keys of distinct constants are distinct numerals
		fmt.Fprintf(b, "(assert (= (skey %s) (- %d)))\n", g.StrConst(s), id)
		fmt.Fprintf(b, "; @endconst\n")
	}
	fmt.Fprintf(b, "(assert (= (skey emptystr) 0))\n")
	for _, n := range g.globalOrder {
		fmt.Fprintf(b, "(declare-const %s %s)\n", n, g.globals[n])
	}
	if len(g.globalDistinct) > 1 {
		fmt.Fprintf(b, "(assert (distinct %s))\n", strings.Join(g.globalDistinct, " "))
	}
	var alts []string
	for _, n := range g.globalDistinct {
		if g.globals[n] == "Iface" {
			fmt.Fprintf(b, "(assert (and (= (itype %s) %d) (> (iref %s) 0)))\n", n, g.TypeID(types.NewPointer(types.Typ[types.Invalid])), n)
			alts = append(alts, "(= e "+n+")")
		}
	}
	fmt.Fprintf(b, "(define-fun errors.repoSentinel ((e Iface)) Bool (or %s false))\n", strings.Join(alts, " "))
	for _, d := range g.extraDecls {
		b.WriteString(d)
		b.WriteString("\n")
	}
}

// ---------------------------------------------------------------------------
// integer ranges

func intRange(t types.Type) (lo, hi string, ok bool) {
	b, isb := types.Unalias(t).Underlying().(*types.Basic)
	if !isb || b.Info()&types.IsInteger == 0 {
		return "", "", false
	}
	switch b.Kind() {
	case types.Int, types.Int64, types.UntypedInt:
		return "MinInt", "MaxInt", true
	case types.Int8:
		return "(- 128)", "127", true
	case types.Int16:
		return "(- 32768)", "32767", true
	case types.Int32, types.UntypedRune:
		return "(- 2147483648)", "2147483647", true
	case types.Uint8:
		return "0", "255", true
	case types.Uint16:
		return "0", "65535", true
	case types.Uint32:
		return "0", "4294967295", true
	case types.Uint, types.Uint64, types.Uintptr:
		return "0", "18446744073709551615", true
	}
	return "", "", false
}

func halfRange(t types.Type) (half string, signed bool) {
	b := types.Unalias(t).Underlying().(*types.Basic)
	switch b.Kind() {
	case types.Int, types.Int64, types.UntypedInt:
		return "9223372036854775808", true
	case types.Int8:
		return "128", true
	case types.Int16:
		return "32768", true
	case types.Int32, types.UntypedRune:
		return "2147483648", true
	case types.Uint8:
		return "256", false
	case types.Uint16:
		return "65536", false
	case types.Uint32:
		return "4294967296", false
	default:
		return "18446744073709551616", false
	}
}

// WF returns a well-formedness (type invariant) formula for a term of Go type t, or "".
func (g *Gen) WF(t types.Type, s string) string {
	t = types.Unalias(t)
	if lo, hi, ok := intRange(t); ok {
		return fmt.Sprintf("(and (<= %s %s) (<= %s %s))", lo, s, s, hi)
	}
	switch g.SortOf(t) {
	case "Str":
		return "(gs.wf " + s + ")"
	case "Slice":
		return fmt.Sprintf("(and (<= 0 (slen %s)) (<= (slen %s) (scap %s)) (<= (scap %s) MaxAlloc) (<= 0 (soff %s)) (>= (sref %s) 0) (=> (= (sref %s) 0) (= (scap %s) 0)))", s, s, s, s, s, s, s, s)
	case "Val":
		return "(val.wf " + s + ")"
	case "Iface":
		return fmt.Sprintf("(and (>= (itype %s) 0) (>= (iref %s) 0) (=> (= (itype %s) 0) (= (iref %s) 0)))", s, s, s, s)
	}
	switch u := t.Underlying().(type) {
	case *types.Pointer, *types.Map:
		return "(>= " + s + " 0)"
	case *types.Struct:
		if g.SortOf(t) == "Dec" {
			return ""
		}
		ss := g.structSort(t)
		var parts []string
		for i := 0; i < u.NumFields(); i++ {
			if w := g.WF(u.Field(i).Type(), "("+ss.Fields[i]+" "+s+")"); w != "" {
				parts = append(parts, w)
			}
		}
		if len(parts) == 0 {
			return ""
		}
		return "(and " + strings.Join(parts, " ") + ")"
	}
	return ""
}

func (g *Gen) pos(p token.Pos) string {
	if !p.IsValid() {
		return ""
	}
	q := g.Fset.Position(p)
	return fmt.Sprintf("%s:%d", strings.TrimPrefix(q.Filename, g.RepoDir+"/"), q.Line)
}

// gatOfFamily: the element-access function of a sequence family ("" if the family is not one).
func (g *Gen) gatOfFamily(f string) string {
	if !strings.HasPrefix(f, "Q_") {
		return ""
	}
	srt := g.families[f]
	const pre = "(Array Int (Array Int "
	if !strings.HasPrefix(srt, pre) {
		return ""
	}
	return gatName(strings.TrimSuffix(strings.TrimPrefix(srt, pre), "))"))
}

package main

// Externals that need more than a clause-language contract.

import (
	"fmt"
	"go/types"
	"sort"
	"strings"

	"golang.org/x/tools/go/ssa"
)

const rtypeID = 19 // "*reflect.rtype" is registered right after the fixed ids

func (fg *FuncGen) special(v *ssa.Call, key string, callee *ssa.Function, args []TTerm) bool {
	switch key {
	case "reflect.TypeOf":
		x := args[0]
		fg.define(v, fmt.Sprintf("(ite (= %s VNil) niliface (mkiface %d (val.type %s)))", x.S, rtypeID, x.S))
		return true
	case "errors.Is":
		fg.errorsIs(v, args[0], args[1])
		return true
	case "errors.New":
		ref := fg.alloc(v.Type())
		fg.define(v, fmt.Sprintf("(mkiface %d %s)", fg.g.TypeID(types.NewPointer(types.Typ[types.Invalid])), ref))
		return true
	}
	return false
}

// errorsIs models errors.Is by its documented algorithm over the repository's error types.
func (fg *FuncGen) errorsIs(v *ssa.Call, err, target TTerm) {
	g := fg.g
	r := fg.declare(v)
	var disj []string
	disj = append(disj, "(= "+err.S+" "+target.S+")")
	var known []string
	var keys []string
	for k := range g.Funcs {
		keys = append(keys, k)
	}
	sort.Strings(keys)
	errType := types.Universe.Lookup("error").Type().Underlying().(*types.Interface)
	seen := map[int]bool{}
	for _, k := range keys {
		f := g.Funcs[k]
		if f.Signature.Recv() == nil {
			continue
		}
		rt := f.Signature.Recv().Type()
		if !types.Implements(rt, errType) {
			continue
		}
		id := g.TypeID(rt)
		guard := fmt.Sprintf("(= (itype %s) %d)", err.S, id)
		if !seen[id] {
			seen[id] = true
			known = append(known, guard)
		}
		switch f.Name() {
		case "Is":
			con := g.Spec.Contracts[k]
			res := fg.fresh("isres")
			fg.emit("(declare-const %s Bool)", res)
			if con != nil {
				env := fg.baseEnv(fg.st, fg.st)
				names := paramNames(f)
				env.vars = map[string]TTerm{names[0]: {S: "(iref " + err.S + ")", Sort: "Int", T: rt}, names[1]: target, "result": {S: res, Sort: "Bool"}}
				for _, en := range con.Ensures {
					t := env.Tr(en.E)
					if fg.err != nil {
						return
					}
					fg.assume("(=> " + guard + " " + t.S + ")")
				}
			}
			disj = append(disj, "(and "+guard+" "+res+")")
		case "Unwrap":
			// wrapped errors come from outside the repository: they never match a repository sentinel
			un := fg.fresh("unwrapis")
			fg.emit("(declare-const %s Bool)", un)
			fg.assume("(=> (errors.repoSentinel " + target.S + ") (not " + un + "))")
			disj = append(disj, "(and "+guard+" "+un+")")
		}
	}
	// foreign error types: unknown
	foreign := "(errors.isf " + err.S + " " + target.S + ")"
	notKnown := "true"
	if len(known) > 0 {
		notKnown = "(not (or " + strings.Join(known, " ") + "))"
	}
	// sentinels created by errors.New have no Is/Unwrap
	disj = append(disj, "(and "+notKnown+" (not (errors.repoSentinel "+err.S+")) "+foreign+")")
	fg.assume(fmt.Sprintf("(= %s (ite (or (= (itype %s) 0) (= (itype %s) 0)) (= %s %s) (or %s)))", r.S, err.S, target.S, err.S, target.S, strings.Join(disj, " ")))
}

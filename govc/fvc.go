package main

// Verification-condition generation for one function (DESIGN.md section 2.3).

import (
	"fmt"
	"go/ast"
	"go/constant"
	"go/token"
	"go/types"
	"sort"
	"strings"

	"golang.org/x/tools/go/ssa"
)

type Obligation struct {
	Name   string
	Kind   string // safe.index safe.slice safe.nil safe.assert safe.div safe.make safe.panic pre post inv.init inv.pres var bound frame cover
	Func   string
	Tags   []string
	Guard  string
	Goal   string
	Pos    string
	Text   string
	Local  []string // assertions added inside the push scope
	Parts  []*Obligation // merged postconditions: the individual clauses (checked one by one when the conjunction is not proved)
	Expect string   // "unsat" normally; "sat" for covers
	Params []string // names of SMT constants to read back from a model
	Block  int      // basic block the obligation is checked in (-1: needs the whole function)
	Via    int      // >= 0: only the paths entering Block through this predecessor (the guard says so too)
}

type Ptr struct {
	Kind     string // obj field aidx elem global
	Parent   *Ptr
	Ref      string
	T        types.Type // pointee type
	Field    int
	Slice    string
	Idx      string
	ElemSort string
	Global   string
}

type loopInfo struct {
	header  *ssa.BasicBlock
	ordinal int
	blocks  map[*ssa.BasicBlock]bool
	spec    *LoopSpec
	initSt  State
	initReach string
	headSt  State
	phiHead map[*ssa.Phi]string
	decHead string
	pos     token.Pos
	isRangeIndex bool
	autoInv []func(map[*ssa.Phi]string) string
	iterSym string
}

type FuncGen struct {
	g    *Gen
	fn   *ssa.Function
	key  string
	c    *Contract
	segs map[int]*strings.Builder
	segIdx int
	obls []*Obligation
	val  map[ssa.Value][]TTerm
	ptr  map[ssa.Value]*Ptr
	reach map[*ssa.BasicBlock]string
	stIn, stOut map[*ssa.BasicBlock]State
	edge  map[[2]*ssa.BasicBlock]string
	ver   map[string]int
	loops map[*ssa.BasicBlock]*loopInfo
	st    State
	cur   *ssa.BasicBlock
	curReach string
	wm0   string
	counters map[string]int
	tmp   int
	err   error
	debugRefs map[string][]*ssa.DebugRef
	retBlocks []*ssa.BasicBlock
	retVals   map[*ssa.BasicBlock][]TTerm
	retSt     map[*ssa.BasicBlock]State
	panicBlocks []*ssa.BasicBlock
	unsupported []string
	paramConsts []string
	iterState map[ssa.Value]*iterInfo
	assumed []string
	callsExternalUnmodelled map[string]bool
	recN map[string]int
	order []*ssa.BasicBlock
	heapSeen map[string]bool
	siteOrd map[*ssa.Call]int
	logCalls map[*ssa.Call]*logInfo
	logList []*logInfo
	heapQueue [][2]string
	undecided []Undecided
	siteUsed  map[*SiteAssert]bool
	linear    bool // G_pend: the AST nodes produced so far in this activation that are not yet part of another node
}

type iterInfo struct {
	kind string // map string
	m    TTerm
	seenFam, nFam string
	mapT *types.Map
}

func (fg *FuncGen) seg() *strings.Builder {
	if fg.segs == nil {
		fg.segs = map[int]*strings.Builder{}
	}
	b := fg.segs[fg.segIdx]
	if b == nil {
		b = &strings.Builder{}
		fg.segs[fg.segIdx] = b
	}
	return b
}

func (fg *FuncGen) emitTo(seg int, format string, a ...interface{}) {
	save := fg.segIdx
	fg.segIdx = seg
	fg.emit(format, a...)
	fg.segIdx = save
}

func (fg *FuncGen) emit(format string, a ...interface{}) {
	b := fg.seg()
	fmt.Fprintf(b, format, a...)
	b.WriteByte('\n')
}

// Script returns the part of the function's encoding that an obligation in block blk depends on:
// the prologue and every block from which blk is reachable in the acyclic control-flow graph.
func (fg *FuncGen) Script(blk int) string { return fg.ScriptVia(blk, -1) }

// ScriptVia: like Script, but when via >= 0 only the paths that enter blk through predecessor via.
func (fg *FuncGen) ScriptVia(blk, via int) string {
	// via may encode a two-edge path: via = pred + 10000*(predOfPred+1)
	via2 := -1
	if via >= 10000 {
		via2 = via/10000 - 1
		via = via % 10000
	}
	var out strings.Builder
	if s := fg.segs[-1]; s != nil {
		out.WriteString(s.String())
	}
	if blk == -3 {
		return out.String()
	}
	var need map[int]bool
	if blk >= 0 && len(fg.order) > 12 {
		need = map[int]bool{}
		var visit func(b *ssa.BasicBlock)
		visit = func(b *ssa.BasicBlock) {
			if need[b.Index] {
				return
			}
			need[b.Index] = true
			for _, p := range b.Preds {
				if !fg.isBackEdge(p, b) {
					visit(p)
				}
			}
		}
		if via >= 0 && via2 >= 0 {
			need[blk] = true
			need[via] = true
			visit(fg.fn.Blocks[via2])
		} else if via >= 0 {
			need[blk] = true
			visit(fg.fn.Blocks[via])
		} else {
			visit(fg.fn.Blocks[blk])
		}
	}
	for _, b := range fg.order {
		if need != nil && !need[b.Index] {
			continue
		}
		if s := fg.segs[b.Index]; s != nil {
			if via2 >= 0 && need != nil && b.Index == via {
				// middle block of a two-edge path: reached exactly along the edge from via2
				for _, l := range strings.SplitAfter(s.String(), "\n") {
					if strings.Contains(l, "; @reachdef") {
						fmt.Fprintf(&out, "(assert (= reach_%d %s))\n", via, fg.edgeReach(fg.fn.Blocks[via2], b))
						continue
					}
					out.WriteString(l)
				}
				continue
			}
			if via >= 0 && need != nil && b.Index == blk {
				// only the paths entering through `via`: the block is reached exactly along that edge
				// (the other predecessors, and the symbols of their branch conditions, are not in this slice)
				for _, l := range strings.SplitAfter(s.String(), "\n") {
					if strings.Contains(l, "; @reachdef") {
						fmt.Fprintf(&out, "(assert (= reach_%d %s))\n", blk, fg.edgeReach(fg.fn.Blocks[via], b))
						continue
					}
					if strings.Contains(l, "; @initdef") {
						continue // entry condition of a loop over all its entry edges: this slice has one of them
					}
					out.WriteString(l)
				}
				continue
			}
			out.WriteString(s.String())
		}
	}
	return out.String()
}

func (fg *FuncGen) fresh(prefix string) string {
	fg.tmp++
	return fmt.Sprintf("%s_%d", prefix, fg.tmp)
}

func (fg *FuncGen) unsupp(format string, a ...interface{}) {
	fg.unsupported = append(fg.unsupported, fmt.Sprintf(format, a...))
}

// fam returns the current symbol of a family, creating the entry version on demand.
func (fg *FuncGen) famIn(st State, fam string) string {
	if s, ok := st[fam]; ok {
		return s
	}
	return fam + "!0"
}

func (fg *FuncGen) setFam(fam, term string) {
	fg.ver[fam]++
	sym := fmt.Sprintf("%s!%d", fam, fg.ver[fam])
	fg.emitDef("%s", "%s", "%s", sym, fg.g.families[fam], term)
	fg.st[fam] = sym
}

func (fg *FuncGen) havocFam(st State, fam string) string {
	fg.ver[fam]++
	sym := fmt.Sprintf("%s!%d", fam, fg.ver[fam])
	fg.emit("(declare-const %s %s)", sym, fg.g.families[fam])
	st[fam] = sym
	return sym
}

func (fg *FuncGen) obl(kind, detail string, pos token.Pos, tags []string, goal, text string) *Obligation {
	fg.counters[kind]++
	name := fmt.Sprintf("%s/%s.%d", shortKey(fg.key), kind, fg.counters[kind])
	if detail != "" {
		name = fmt.Sprintf("%s/%s", shortKey(fg.key), detail)
		fg.counters["n:"+name]++
		if n := fg.counters["n:"+name]; n > 1 {
			name = fmt.Sprintf("%s#%d", name, n)
		}
	}
	o := &Obligation{Name: name, Kind: kind, Func: fg.key, Tags: tags, Guard: fg.curReach, Goal: goal, Pos: fg.g.pos(pos), Text: text, Expect: "unsat", Params: fg.paramConsts, Block: fg.segIdx, Via: -1}
	fg.obls = append(fg.obls, o)
	return o
}

func shortKey(k string) string {
	k = strings.TrimPrefix(k, repoModule+"/internal/")
	k = strings.TrimPrefix(k, repoModule+".")
	if k == "" {
		return "jmespath"
	}
	return k
}

func (fg *FuncGen) assume(s string) {
	fg.emit("(assert (=> %s %s))", fg.curReach, s)
}

// ---------------------------------------------------------------------------

func (g *Gen) GenFunc(fn *ssa.Function) (*FuncGen, error) {
	fg := &FuncGen{g: g, fn: fn, key: FuncKey(fn), val: map[ssa.Value][]TTerm{}, ptr: map[ssa.Value]*Ptr{},
		reach: map[*ssa.BasicBlock]string{}, stIn: map[*ssa.BasicBlock]State{}, stOut: map[*ssa.BasicBlock]State{},
		edge: map[[2]*ssa.BasicBlock]string{}, ver: map[string]int{}, loops: map[*ssa.BasicBlock]*loopInfo{},
		counters: map[string]int{}, debugRefs: map[string][]*ssa.DebugRef{}, retVals: map[*ssa.BasicBlock][]TTerm{},
		retSt: map[*ssa.BasicBlock]State{}, iterState: map[ssa.Value]*iterInfo{}, callsExternalUnmodelled: map[string]bool{}}
	fg.c = g.Spec.Contracts[fg.key]
	fg.segIdx = -1
	fg.wm0 = "wm!0"
	g.Family("wm", "Int")
	fg.emit("; ===== function %s (%s)", fg.key, g.pos(fn.Pos()))
	// parameters
	for _, p := range fn.Params {
		name := "p_" + smtIdent(p.Name())
		srt := g.SortOf(p.Type())
		fg.emit("(declare-const %s %s)", name, srt)
		fg.paramConsts = append(fg.paramConsts, name)
		fg.val[p] = []TTerm{{S: name, Sort: srt, T: p.Type()}}
		if w := g.WF(p.Type(), name); w != "" {
			fg.emit("(assert %s)", w)
		}
		if srt == "Val" {
			fg.emit("(assert (=> c18.ih (val.finite %s)))", name)
		}
		fg.assertOld(name, srt)
	}
	for _, fv := range fn.FreeVars {
		name := "fv_" + smtIdent(fv.Name())
		srt := g.SortOf(fv.Type())
		fg.emit("(declare-const %s %s)", name, srt)
		fg.val[fv] = []TTerm{{S: name, Sort: srt, T: fv.Type()}}
		fg.assertOld(name, srt)
	}
	fg.emit("(assert (> %s 0))", fg.wm0)
	if fn.Signature.Recv() != nil && len(fn.Params) > 0 && !g.nilReceiverOK(fg.key) {
		if _, isPtr := fn.Params[0].Type().Underlying().(*types.Pointer); isPtr {
			fg.emit("(assert (> %s 0)) ; receiver is non-nil (checked at every call site)", fg.val[fn.Params[0]][0].S)
		}
	}
	fg.st = State{}
	if fg.c != nil && fg.c.Linear {
		fg.linear = true
		g.Family("G_pend", "(Array Int Bool)")
	}
	fg.collectDebugRefs()
	fg.findLoops()
	fg.findLogCalls()
	// requires
	fg.curReach = "true"
	if fg.c != nil {
		env := fg.funcEnv(fg.st, fg.st, nil)
		env.assume = true
		for _, r := range fg.c.Requires {
			t := env.Tr(r.E)
			if fg.clauseFailed(r) {
				continue
			}
			fg.emit("(assert %s) ; requires %s", t.S, r.Pos)
		}
	}
	// receiver type invariants are assumed for parameters of struct pointer type
	fg.assumeTypeInvsForParams()
	// blocks in reverse post-order over the acyclic graph
	fg.order = fg.rpo()
	for _, b := range fg.order {
		fg.block(b)
		if fg.err != nil {
			return nil, fg.err
		}
	}
	fg.finishLoops()
	fg.finishReturns()
	fg.flushHeaps()
	if fg.c != nil {
		for _, sa := range fg.c.Sites {
			if !fg.siteUsed[sa] {
				tags := sa.C.Tags
				if len(tags) == 0 {
					tags = fg.c.Tags
				}
				fg.undecided = append(fg.undecided, Undecided{Func: fg.key, Pos: sa.C.Pos, Text: sa.C.Text, Reason: fmt.Sprintf("no call or allocation site matches `at %s#%d`", sa.Callee, sa.N), Tags: tags})
				lbl := sa.C.Label
				if lbl == "" {
					lbl = "clause"
				}
				fg.lost(fmt.Sprintf("at.%s.%d.%s", sa.Callee, sa.N, lbl), tags, sa.C.Pos, fmt.Sprintf("no call or allocation site matches `at %s#%d`: %s", sa.Callee, sa.N, sa.C.Text))
			}
		}
	}
	if fg.err != nil {
		return nil, fg.err
	}
	return fg, nil
}

func (fg *FuncGen) assertOld(name, srt string) {
	switch srt {
	case "Val":
		fg.emit("(assert (val.below %s %s))", name, fg.wm0)
	case "Slice":
		fg.emit("(assert (< (sref %s) %s))", name, fg.wm0)
	case "Iface":
		fg.emit("(assert (< (iref %s) %s))", name, fg.wm0)
	}
}

func (fg *FuncGen) collectDebugRefs() {
	for _, b := range fg.fn.Blocks {
		for _, in := range b.Instrs {
			if d, ok := in.(*ssa.DebugRef); ok {
				if id, ok := d.Expr.(*ast.Ident); ok {
					fg.debugRefs[id.Name] = append(fg.debugRefs[id.Name], d)
				}
			}
		}
	}
}

func (fg *FuncGen) findLoops() {
	var headers []*ssa.BasicBlock
	for _, b := range fg.fn.Blocks {
		for _, p := range b.Preds {
			if b.Dominates(p) {
				if fg.loops[b] == nil {
					fg.loops[b] = &loopInfo{header: b, blocks: map[*ssa.BasicBlock]bool{b: true}, phiHead: map[*ssa.Phi]string{}}
					headers = append(headers, b)
				}
				// natural loop of back edge p -> b
				li := fg.loops[b]
				stack := []*ssa.BasicBlock{p}
				for len(stack) > 0 {
					x := stack[len(stack)-1]
					stack = stack[:len(stack)-1]
					if li.blocks[x] {
						continue
					}
					li.blocks[x] = true
					stack = append(stack, x.Preds...)
				}
			}
		}
	}
	// ordinal by source position of the loop statement; the header's first instruction with a position is a good proxy
	for _, h := range headers {
		li := fg.loops[h]
		li.pos = loopPos(li)
	}
	sort.Slice(headers, func(i, j int) bool { return fg.loops[headers[i]].pos < fg.loops[headers[j]].pos })
	for i, h := range headers {
		li := fg.loops[h]
		li.ordinal = i + 1
		if fg.c != nil {
			li.spec = fg.c.Loops[li.ordinal]
		}
		for _, in := range h.Instrs {
			if phi, ok := in.(*ssa.Phi); ok && phi.Comment == "rangeindex" {
				li.isRangeIndex = true
			}
		}
	}
}

func loopPos(li *loopInfo) token.Pos {
	best := token.NoPos
	for b := range li.blocks {
		for _, in := range b.Instrs {
			p := in.Pos()
			if d, ok := in.(*ssa.DebugRef); ok {
				p = d.Expr.Pos()
			}
			if p.IsValid() && (best == token.NoPos || p < best) {
				best = p
			}
		}
	}
	return best
}

func (fg *FuncGen) isBackEdge(p, b *ssa.BasicBlock) bool {
	return fg.loops[b] != nil && b.Dominates(p)
}

func (fg *FuncGen) rpo() []*ssa.BasicBlock {
	seen := map[*ssa.BasicBlock]bool{}
	var post []*ssa.BasicBlock
	var dfs func(b *ssa.BasicBlock)
	dfs = func(b *ssa.BasicBlock) {
		seen[b] = true
		for _, s := range b.Succs {
			if !seen[s] && !fg.isBackEdge(b, s) {
				dfs(s)
			}
		}
		post = append(post, b)
	}
	dfs(fg.fn.Blocks[0])
	for i, j := 0, len(post)-1; i < j; i, j = i+1, j-1 {
		post[i], post[j] = post[j], post[i]
	}
	return post
}

// ---------------------------------------------------------------------------
// environments for clauses

func (fg *FuncGen) baseEnv(st, old State) *Env {
	env := &Env{g: fg.g, vars: map[string]TTerm{}, st: st, old: old, wm0: fg.wm0, err: &fg.err, fnName: fg.key}
	env.famOf = func(f string) string { return fg.famIn(env.st, f) }
	env.famOld = func(f string) string { return fg.famIn(old, f) }
	env.onHeap = fg.noteHeap
	return env
}

func (fg *FuncGen) funcEnv(st, old State, results []TTerm) *Env {
	env := fg.baseEnv(st, old)
	env.lookup = func(name string) (TTerm, bool) { return fg.logName(name, env.st) }
	for _, p := range fg.fn.Params {
		env.vars[p.Name()] = fg.val[p][0]
	}
	for _, fv := range fg.fn.FreeVars {
		env.vars[fv.Name()] = fg.val[fv][0] // captured variable of a function literal: a pointer into the enclosing activation
	}
	for i, r := range results {
		env.vars[fmt.Sprintf("result%d", i)] = r
		if len(results) == 1 {
			env.vars["result"] = r
		}
	}
	if res := fg.fn.Signature.Results(); res != nil {
		for i := 0; i < res.Len() && i < len(results); i++ {
			if n := res.At(i).Name(); n != "" && n != "_" {
				env.vars[n] = results[i]
			}
		}
		if len(results) == 2 {
			env.vars["result"] = results[0]
			env.vars["err"] = results[1]
		}
	}
	return env
}

// resolveAt finds the SSA value of a source variable at a loop header.
func (fg *FuncGen) resolveAt(name string, li *loopInfo) ssa.Value {
	for _, in := range li.header.Instrs {
		if phi, ok := in.(*ssa.Phi); ok && phi.Comment == name {
			return phi
		}
	}
	var candidates []*ssa.DebugRef
	for _, d := range fg.debugRefs[name] {
		candidates = append(candidates, d)
	}
	// a use inside the loop whose value is loop-invariant or a header phi
	var blocks []*ssa.BasicBlock
	for b := range li.blocks {
		blocks = append(blocks, b)
	}
	sort.Slice(blocks, func(i, j int) bool { return blocks[i].Index < blocks[j].Index })
	for _, b := range blocks {
		for _, d := range candidates {
			if d.Block() != b {
				continue
			}
			if defBlock(d.X) == nil || !li.blocks[defBlock(d.X)] {
				return d.X
			}
			if phi, ok := d.X.(*ssa.Phi); ok && phi.Block() == li.header {
				return phi
			}
		}
	}
	// the latest definition that dominates the loop: a phi carrying the variable, or a use in a dominating block
	var bestV ssa.Value
	var bestB *ssa.BasicBlock
	consider := func(v ssa.Value, b *ssa.BasicBlock) {
		if !b.Dominates(li.header) || b == li.header {
			return
		}
		if bestB == nil || (bestB.Dominates(b) && bestB != b) {
			bestV, bestB = v, b
		}
	}
	for _, d := range candidates {
		consider(d.X, d.Block())
	}
	for _, b := range fg.fn.Blocks {
		for _, in := range b.Instrs {
			if phi, ok := in.(*ssa.Phi); ok && phi.Comment == name {
				if bestB == nil || bestB.Dominates(b) {
					consider(phi, b)
					if bestB == b {
						bestV = phi
					}
				}
			}
		}
	}
	if bestV != nil {
		return bestV
	}
	for _, p := range fg.fn.Params {
		if p.Name() == name {
			return p
		}
	}
	// explicit register name
	for _, b := range fg.fn.Blocks {
		for _, in := range b.Instrs {
			if v, ok := in.(ssa.Value); ok && v.Name() == name {
				return v
			}
		}
	}
	return nil
}

func defBlock(v ssa.Value) *ssa.BasicBlock {
	if in, ok := v.(ssa.Instruction); ok {
		return in.Block()
	}
	return nil
}

// loopEnv builds the environment for loop clauses; phiVals overrides header phis.
func (fg *FuncGen) loopEnv(li *loopInfo, st State, phiVals map[*ssa.Phi]string) *Env {
	env := fg.baseEnv(st, State{})
	for _, p := range fg.fn.Params {
		env.vars[p.Name()+"0"] = fg.val[p][0] // entry value
	}
	env.lookup = func(name string) (TTerm, bool) {
		if t, ok := fg.logName(name, env.st); ok {
			return t, true
		}
		if name == "iter" && li.isRangeIndex {
			for _, in := range li.header.Instrs {
				if phi, ok := in.(*ssa.Phi); ok && phi.Comment == "rangeindex" {
					if li.iterSym != "" && phiVals[phi] == li.phiHead[phi] {
						return TTerm{S: li.iterSym, Sort: "Int"}, true
					}
					return TTerm{S: "(+ " + phiVals[phi] + " 1)", Sort: "Int"}, true
				}
			}
		}
		if strings.HasPrefix(name, "it_") { // iterator ghost state: it_n / it_seen of the n-th range in the loop
			// the iterator of this loop: the range whose next() is in the loop header
			var mine ssa.Value
			for _, in := range li.header.Instrs {
				if nx, ok := in.(*ssa.Next); ok {
					mine = nx.Iter
				}
			}
			for v, it := range fg.iterState {
				if mine != nil && v != mine {
					continue
				}
				if name == "it_n" {
					return TTerm{S: fg.famIn(st, it.nFam), Sort: "Int"}, true
				}
				if name == "it_seen" {
					return TTerm{S: fg.famIn(st, it.seenFam), Sort: "(Array Int Bool)"}, true
				}
				if name == "it_str" && it.kind == "string" {
					return TTerm{S: it.m.S, Sort: "Str", T: types.Typ[types.String]}, true // the string this loop ranges over
				}
			}
		}
		v := fg.resolveAt(name, li)
		if v == nil {
			return TTerm{}, false
		}
		if phi, ok := v.(*ssa.Phi); ok && phi.Block() == li.header {
			return TTerm{S: phiVals[phi], Sort: fg.g.SortOf(phi.Type()), T: phi.Type()}, true
		}
		t := fg.valueOf(v)
		return t, true
	}
	return env
}

// ---------------------------------------------------------------------------
// values

func (fg *FuncGen) valueOf(v ssa.Value) TTerm {
	if ts, ok := fg.val[v]; ok {
		return ts[0]
	}
	switch c := v.(type) {
	case *ssa.Const:
		return fg.constant(c)
	case *ssa.Global:
		return TTerm{S: "0", Sort: "Int", T: c.Type()}
	case *ssa.Function:
		return TTerm{S: fmt.Sprint(fg.g.FuncID(FuncKey(c))), Sort: "Int", T: c.Type()} // a function value is identified by the function it names
	case *ssa.Builtin:
		return TTerm{S: "0", Sort: "Int"}
	}
	fg.unsupp("value %s (%T) used before definition", v.Name(), v)
	return TTerm{S: "0", Sort: fg.g.SortOf(v.Type()), T: v.Type()}
}

func (fg *FuncGen) constant(c *ssa.Const) TTerm {
	t := c.Type()
	srt := fg.g.SortOf(t)
	if c.Value == nil {
		return TTerm{S: fg.g.Zero(t), Sort: srt, T: t}
	}
	switch c.Value.Kind() {
	case constant.Bool:
		return TTerm{S: fmt.Sprint(constant.BoolVal(c.Value)), Sort: "Bool", T: t}
	case constant.String:
		return TTerm{S: fg.g.StrConst(constant.StringVal(c.Value)), Sort: "Str", T: t}
	case constant.Int:
		if srt == "F64" || srt == "F32" {
			return TTerm{S: fg.floatConst(c.Value.ExactString(), srt), Sort: srt, T: t}
		}
		s := c.Value.ExactString()
		if strings.HasPrefix(s, "-") {
			s = "(- " + s[1:] + ")"
		}
		return TTerm{S: s, Sort: "Int", T: t}
	case constant.Float:
		return TTerm{S: fg.floatConst(c.Value.ExactString(), srt), Sort: srt, T: t}
	}
	fg.unsupp("constant %s", c)
	return TTerm{S: fg.g.Zero(t), Sort: srt, T: t}
}

func (fg *FuncGen) floatConst(exact, srt string) string {
	if exact == "0" {
		if srt == "F32" {
			return "f32.zero"
		}
		return "f64.zero"
	}
	name := "fc_" + strings.ToLower(srt) + "_" + smtIdent(exact)
	if _, ok := fg.g.globals[name]; !ok {
		fg.g.Global(name, srt, false)
		if srt == "F64" || srt == "F32" {
			// integral constants are related to their integer value
			if !strings.Contains(exact, "/") {
				v := exact
				if strings.HasPrefix(v, "-") {
					v = "(- " + v[1:] + ")"
				}
				fg.g.extraDecls = append(fg.g.extraDecls, fmt.Sprintf("(assert (= %s (%s.ofint %s)))", name, strings.ToLower(srt), v))
			}
		}
	}
	return name
}

func (fg *FuncGen) define(v ssa.Value, term string) TTerm {
	name := "v_" + v.Name()
	srt := fg.g.SortOf(v.Type())
	fg.emitDef("%s", "%s", "%s", name, srt, term)
	t := TTerm{S: name, Sort: srt, T: v.Type()}
	fg.val[v] = []TTerm{t}
	return t
}

func (fg *FuncGen) declare(v ssa.Value) TTerm {
	name := "v_" + v.Name()
	srt := fg.g.SortOf(v.Type())
	fg.emit("(declare-const %s %s)", name, srt)
	t := TTerm{S: name, Sort: srt, T: v.Type()}
	fg.val[v] = []TTerm{t}
	if w := fg.g.WF(v.Type(), name); w != "" {
		fg.emit("(assert %s)", w)
	}
	return t
}

func (fg *FuncGen) declareTmp(prefix, srt string, t types.Type) TTerm {
	name := fg.fresh(prefix)
	fg.emit("(declare-const %s %s)", name, srt)
	if t != nil {
		if w := fg.g.WF(t, name); w != "" {
			fg.emit("(assert %s)", w)
		}
	}
	return TTerm{S: name, Sort: srt, T: t}
}

// ---------------------------------------------------------------------------
// pointers

func (fg *FuncGen) ptrOf(v ssa.Value) *Ptr {
	if p, ok := fg.ptr[v]; ok {
		return p
	}
	if gl, ok := v.(*ssa.Global); ok {
		return &Ptr{Kind: "global", Global: globalName(gl), T: gl.Type().(*types.Pointer).Elem()}
	}
	pt, ok := v.Type().Underlying().(*types.Pointer)
	if !ok {
		fg.unsupp("pointer expected for %s", v.Name())
		return &Ptr{Kind: "obj", Ref: "0", T: types.Typ[types.Int]}
	}
	return &Ptr{Kind: "obj", Ref: fg.valueOf(v).S, T: pt.Elem()}
}

func globalName(gl *ssa.Global) string {
	return "g_" + smtIdent(gl.Pkg.Pkg.Path()+"."+gl.Name())
}

func (fg *FuncGen) load(p *Ptr) string {
	g := fg.g
	switch p.Kind {
	case "global":
		srt := g.SortOf(p.T)
		return g.Global(p.Global, srt, srt == "Iface")
	case "obj":
		switch u := p.T.Underlying().(type) {
		case *types.Struct:
			if isNamed(p.T, decPkg, "Decimal") {
				return "(select " + fg.famIn(fg.st, g.CellFamily("Dec")) + " " + p.Ref + ")"
			}
			ss := g.structSort(p.T)
			if len(ss.Fields) == 0 {
				return ss.Ctor
			}
			var a []string
			for i := 0; i < u.NumFields(); i++ {
				a = append(a, "(select "+fg.famIn(fg.st, g.FieldFamily(p.T, i))+" "+p.Ref+")")
			}
			return "(" + ss.Ctor + " " + strings.Join(a, " ") + ")"
		case *types.Array:
			return "(select " + fg.famIn(fg.st, g.SeqFamily(g.SortOf(u.Elem()))) + " " + p.Ref + ")"
		default:
			return "(select " + fg.famIn(fg.st, g.CellFamily(g.SortOf(p.T))) + " " + p.Ref + ")"
		}
	case "field":
		if p.Parent.Kind == "obj" {
			return "(select " + fg.famIn(fg.st, g.FieldFamily(p.Parent.T, p.Field)) + " " + p.Parent.Ref + ")"
		}
		ss := g.structSort(p.Parent.T)
		return "(" + ss.Fields[p.Field] + " " + fg.load(p.Parent) + ")"
	case "aidx":
		return "(select " + fg.load(p.Parent) + " " + p.Idx + ")"
	case "elem":
		return fmt.Sprintf("(%s %s %s %s)", gatName(p.ElemSort), fg.famIn(fg.st, g.SeqFamily(p.ElemSort)), p.Slice, p.Idx)
	}
	return "0"
}

func (fg *FuncGen) store(p *Ptr, v string) {
	g := fg.g
	switch p.Kind {
	case "global":
		fg.unsupp("store to global %s", p.Global)
	case "obj":
		switch u := p.T.Underlying().(type) {
		case *types.Struct:
			if isNamed(p.T, decPkg, "Decimal") {
				f := g.CellFamily("Dec")
				fg.setFam(f, "(store "+fg.famIn(fg.st, f)+" "+p.Ref+" "+v+")")
				return
			}
			ss := g.structSort(p.T)
			for i := 0; i < u.NumFields(); i++ {
				f := g.FieldFamily(p.T, i)
				fg.setFam(f, "(store "+fg.famIn(fg.st, f)+" "+p.Ref+" ("+ss.Fields[i]+" "+v+"))")
			}
		case *types.Array:
			f := g.SeqFamily(g.SortOf(u.Elem()))
			fg.setFam(f, "(store "+fg.famIn(fg.st, f)+" "+p.Ref+" "+v+")")
		default:
			f := g.CellFamily(g.SortOf(p.T))
			fg.setFam(f, "(store "+fg.famIn(fg.st, f)+" "+p.Ref+" "+v+")")
		}
	case "field":
		if p.Parent.Kind == "obj" {
			f := g.FieldFamily(p.Parent.T, p.Field)
			fg.setFam(f, "(store "+fg.famIn(fg.st, f)+" "+p.Parent.Ref+" "+v+")")
			return
		}
		ss := g.structSort(p.Parent.T)
		old := fg.load(p.Parent)
		var a []string
		for i := range ss.Fields {
			if i == p.Field {
				a = append(a, v)
			} else {
				a = append(a, "("+ss.Fields[i]+" "+old+")")
			}
		}
		fg.store(p.Parent, "("+ss.Ctor+" "+strings.Join(a, " ")+")")
	case "aidx":
		fg.store(p.Parent, "(store "+fg.load(p.Parent)+" "+p.Idx+" "+v+")")
	case "elem":
		f := g.SeqFamily(p.ElemSort)
		cur := fg.famIn(fg.st, f)
		fg.setFam(f, fmt.Sprintf("(store %s (sref %s) (store (select %s (sref %s)) (+ (soff %s) %s) %s))", cur, p.Slice, cur, p.Slice, p.Slice, p.Idx, v))
		// the same update stated through the element-access function (so that quantified facts about
		// elements are triggered by the post-state terms)
		nw := fg.famIn(fg.st, f)
		gf := gatName(p.ElemSort)
		fg.emit("(assert (= (%s %s %s %s) %s))", gf, nw, p.Slice, p.Idx, v)
		fg.emit("(assert (forall ((s Slice) (j Int)) (! (=> (or (not (= (sref s) (sref %s))) (not (= (+ (soff s) j) (+ (soff %s) %s)))) (= (%s %s s j) (%s %s s j))) :pattern ((%s %s s j)))))",
			p.Slice, p.Slice, p.Idx, gf, nw, gf, cur, gf, nw)
	}
}

// rootRef returns the object reference a pointer ultimately writes into ("" for globals).
func (p *Ptr) rootRef() string {
	switch p.Kind {
	case "obj":
		return p.Ref
	case "elem":
		return "(sref " + p.Slice + ")"
	case "global":
		return ""
	}
	return p.Parent.rootRef()
}

func (fg *FuncGen) alloc(t types.Type) string {
	// bump the watermark; returns the new reference
	ref := fg.fresh("ref")
	fg.emitDef("%s", "Int", "%s", ref, fg.famIn(fg.st, "wm"))
	fg.setFam("wm", "(+ "+ref+" 1)")
	return ref
}

// ---------------------------------------------------------------------------
// blocks

func (fg *FuncGen) mergeStates(b *ssa.BasicBlock, preds []*ssa.BasicBlock) State {
	// collect families that differ
	fams := map[string]bool{}
	for _, p := range preds {
		for f := range fg.stOut[p] {
			fams[f] = true
		}
	}
	var names []string
	for f := range fams {
		names = append(names, f)
	}
	sort.Strings(names)
	st := State{}
	for _, f := range names {
		first := fg.famIn(fg.stOut[preds[0]], f)
		same := true
		for _, p := range preds[1:] {
			if fg.famIn(fg.stOut[p], f) != first {
				same = false
			}
		}
		if same {
			st[f] = first
			continue
		}
		fg.ver[f]++
		sym := fmt.Sprintf("%s!%d", f, fg.ver[f])
		// merged value: declared in the prologue, constrained per incoming edge in the predecessor's
		// segment, so that a slice through one predecessor does not need the others
		fg.emitTo(-1, "(declare-const %s %s)", sym, fg.g.families[f])
		for _, p := range preds {
			fg.emitTo(p.Index, "(assert (=> %s (= %s %s)))", fg.edgeReach(p, b), sym, fg.famIn(fg.stOut[p], f))
		}
		st[f] = sym
	}
	return st
}

func (fg *FuncGen) edgeReach(p, b *ssa.BasicBlock) string {
	return "(and " + fg.reach[p] + " " + fg.edge[[2]*ssa.BasicBlock{p, b}] + ")"
}

func (fg *FuncGen) block(b *ssa.BasicBlock) {
	fg.cur = b
	fg.segIdx = b.Index
	var fwd []*ssa.BasicBlock
	for _, p := range b.Preds {
		if !fg.isBackEdge(p, b) {
			if _, ok := fg.reach[p]; ok {
				fwd = append(fwd, p)
			}
		}
	}
	rname := fmt.Sprintf("reach_%d", b.Index)
	if b.Index == 0 {
		fg.emitTo(-1, "(declare-const %s Bool)", rname)
		fg.emit("(assert (= %s true))", rname)
		fg.reach[b] = rname
		fg.curReach = rname
		fg.st = State{}
		if fg.linear {
			fg.setFam("G_pend", "((as const (Array Int Bool)) false)")
		}
	} else {
		var parts []string
		for _, p := range fwd {
			parts = append(parts, fg.edgeReach(p, b))
		}
		in := "false"
		if len(parts) == 1 {
			in = parts[0]
		} else if len(parts) > 1 {
			in = "(or " + strings.Join(parts, " ") + ")"
		}
		if len(fwd) == 0 {
			fg.st = State{}
		} else {
			fg.st = fg.mergeStates(b, fwd)
		}
		if li := fg.loops[b]; li != nil {
			fg.loopHead(li, fwd, in, rname)
		} else {
			fg.emitTo(-1, "(declare-const %s Bool)", rname)
			fg.emit("(assert (= %s %s)) ; @reachdef", rname, in)
			fg.reach[b] = rname
			fg.curReach = rname
			// phis
			for _, instr := range b.Instrs {
				phi, ok := instr.(*ssa.Phi)
				if !ok {
					break
				}
				fg.definePhi(phi, b, fwd)
			}
		}
	}
	fg.stIn[b] = fg.st.Copy()
	for _, in := range b.Instrs {
		if _, ok := in.(*ssa.Phi); ok {
			continue
		}
		fg.instr(in)
	}
	fg.stOut[b] = fg.st
}

func (fg *FuncGen) phiEdgeValue(phi *ssa.Phi, b, pred *ssa.BasicBlock) ssa.Value {
	for i, p := range b.Preds {
		if p == pred {
			return phi.Edges[i]
		}
	}
	return nil
}

func (fg *FuncGen) definePhi(phi *ssa.Phi, b *ssa.BasicBlock, fwd []*ssa.BasicBlock) {
	if _, isPtr := phi.Type().Underlying().(*types.Pointer); isPtr {
		// pointers through phis are only supported when they are object references
	}
	if len(fwd) == 0 {
		fg.define(phi, fg.g.Zero(phi.Type()))
		return
	}
	if len(fwd) == 1 {
		fg.define(phi, fg.valueOf(fg.phiEdgeValue(phi, b, fwd[0])).S)
		return
	}
	name := "v_" + phi.Name()
	srt := fg.g.SortOf(phi.Type())
	fg.emitTo(-1, "(declare-const %s %s)", name, srt)
	fg.val[phi] = []TTerm{{S: name, Sort: srt, T: phi.Type()}}
	for _, p := range fwd {
		fg.emitTo(p.Index, "(assert (=> %s (= %s %s)))", fg.edgeReach(p, b), name, fg.valueOf(fg.phiEdgeValue(phi, b, p)).S)
	}
}

// modifiedFamilies scans a loop body for the heap families it may change.
func (fg *FuncGen) modifiedFamilies(li *loopInfo) map[string]bool {
	mod := map[string]bool{}
	for b := range li.blocks {
		for _, in := range b.Instrs {
			fg.g.instrEffects(in, mod)
			if c, ok := in.(*ssa.Call); ok {
				if l := fg.logCalls[c]; l != nil {
					for _, f := range l.fams {
						mod[f] = true
					}
				}
			}
		}
	}
	return mod
}

func (fg *FuncGen) loopHead(li *loopInfo, fwd []*ssa.BasicBlock, in string, rname string) {
	b := li.header
	li.initSt = fg.st.Copy()
	li.initReach = fg.fresh("linit")
	fg.emit("(declare-const %s Bool)", li.initReach)
	fg.emit("(assert (= %s %s)) ; @initdef", li.initReach, in)
	firstInit := len(fg.obls)
	// init values of phis
	initVals := map[*ssa.Phi]string{}
	for _, instr := range b.Instrs {
		phi, ok := instr.(*ssa.Phi)
		if !ok {
			break
		}
		term := fg.valueOf(fg.phiEdgeValue(phi, b, fwd[len(fwd)-1])).S
		for i := len(fwd) - 2; i >= 0; i-- {
			term = fmt.Sprintf("(ite %s %s %s)", fg.edgeReach(fwd[i], b), fg.valueOf(fg.phiEdgeValue(phi, b, fwd[i])).S, term)
		}
		initVals[phi] = term
	}
	tags := fg.funcTags()
	// automatic invariant of range-over-slice loops: the hidden index stays within [-1, len)
	li.autoInv = nil
	for _, instr := range b.Instrs {
		if cmp, ok := instr.(*ssa.BinOp); ok && cmp.Op == token.LSS {
			if add, ok := cmp.X.(*ssa.BinOp); ok && add.Op == token.ADD {
				if phi, ok := add.X.(*ssa.Phi); ok && phi.Comment == "rangeindex" && phi.Block() == b {
					if defBlock(cmp.Y) == nil || !li.blocks[defBlock(cmp.Y)] {
						lim := fg.valueOf(cmp.Y).S
						li.autoInv = append(li.autoInv, func(vals map[*ssa.Phi]string) string {
							return "(and (<= (- 1) " + vals[phi] + ") (<= (+ " + vals[phi] + " 1) " + lim + "))"
						})
					}
				}
			}
		}
	}
	fg.curReach = li.initReach
	for i, ai := range li.autoInv {
		fg.obl("inv.init", fmt.Sprintf("loop%d.auto%d.init", li.ordinal, i+1), li.pos, safetyTags, ai(initVals), "range index stays within bounds")
	}
	// invariant establishment
	fg.curReach = li.initReach
	if li.spec != nil {
		env := fg.loopEnv(li, li.initSt, initVals)
		for i, inv := range li.spec.Invariants {
			t := env.Tr(inv.E)
			if fg.clauseFailed(inv) {
				continue
			}
			fg.obl("inv.init", fmt.Sprintf("loop%d.inv%d.init", li.ordinal, i+1), li.pos, pick(inv.Tags, tags), t.S, inv.Text)
		}
	}
	// a single entry edge from a block where many paths meet: one obligation per path into that block
	if len(fwd) == 1 && fg.loops[fwd[0]] == nil && len(fg.fn.Blocks) < 10000 {
		mid := fwd[0]
		var preds []*ssa.BasicBlock
		for _, q := range mid.Preds {
			if !fg.isBackEdge(q, mid) {
				if _, ok := fg.reach[q]; ok {
					preds = append(preds, q)
				}
			}
		}
		if len(preds) >= 4 {
			orig := append([]*Obligation{}, fg.obls[firstInit:]...)
			fg.obls = fg.obls[:firstInit]
			for _, o := range orig {
				if o.Guard != li.initReach {
					fg.obls = append(fg.obls, o)
					continue
				}
				for k, q := range preds {
					c := *o
					c.Name = fmt.Sprintf("%s~%d", o.Name, k+1)
					c.Guard = "(and " + fg.edgeReach(q, mid) + " " + fg.edgeReach(mid, b) + ")"
					c.Via = mid.Index + 10000*(q.Index+1)
					fg.obls = append(fg.obls, &c)
				}
			}
		}
	}
	// establishment from many entry edges: one obligation per edge, each on the slice of its own edge
	if len(fwd) >= 4 {
		orig := append([]*Obligation{}, fg.obls[firstInit:]...)
		fg.obls = fg.obls[:firstInit]
		for _, o := range orig {
			if o.Guard != li.initReach {
				fg.obls = append(fg.obls, o)
				continue
			}
			for k, q := range fwd {
				c := *o
				c.Name = fmt.Sprintf("%s~%d", o.Name, k+1)
				c.Guard = fg.edgeReach(q, b)
				c.Via = q.Index
				fg.obls = append(fg.obls, &c)
			}
		}
	}
	// havoc
	fg.emitTo(-1, "(declare-const %s Bool)", rname)
	fg.emit("(assert (=> %s %s))", rname, li.initReach)
	fg.reach[b] = rname
	fg.curReach = rname
	for _, instr := range b.Instrs {
		phi, ok := instr.(*ssa.Phi)
		if !ok {
			break
		}
		t := fg.declare(phi)
		li.phiHead[phi] = t.S
		if phi.Comment == "rangeindex" {
			fg.emit("(assert (>= %s (- 1)))", t.S)
			// a name for the number of completed iterations (the same term the loop body computes)
			li.iterSym = fg.fresh("iter")
			fg.emit("(declare-const %s Int)", li.iterSym)
			fg.emit("(assert (= %s (+ %s 1)))", li.iterSym, t.S)
		}
	}
	mod := fg.modifiedFamilies(li)
	if li.spec != nil {
		for _, m := range li.spec.Modifies {
			mod[m] = true
		}
	}
	var names []string
	for f := range mod {
		names = append(names, f)
	}
	sort.Strings(names)
	assigned := fg.assignedFamilies()
	for _, f := range names {
		if _, ok := fg.g.families[f]; !ok {
			continue
		}
		before := fg.famIn(fg.st, f)
		sym := fg.havocFam(fg.st, f)
		if f == "wm" {
			fg.emit("(assert (>= %s %s))", sym, before)
			continue
		}
		if strings.HasPrefix(f, "IT_") || strings.HasPrefix(f, "LOG_") || strings.HasPrefix(f, "G_") {
			continue
		}
		if !assigned[f] && strings.HasPrefix(fg.g.families[f], "(Array Int") {
			// objects that existed at function entry are not written (justified by the frame obligations)
			fg.emit("(assert (forall ((r Int)) (! (=> (< r %s) (= (select %s r) (select %s!0 r))) :pattern ((select %s r)))))", fg.wm0, sym, f, sym)
			if gf := fg.g.gatOfFamily(f); gf != "" {
				fg.emit("(assert (forall ((s Slice) (i Int)) (! (=> (< (sref s) %s) (= (%s %s s i) (%s %s!0 s i))) :pattern ((%s %s s i)))))", fg.wm0, gf, sym, gf, f, gf, sym)
			}
		}
	}
	li.headSt = fg.st.Copy()
	// every reference held in a loop-carried variable was allocated before this point
	for _, instr := range b.Instrs {
		phi, ok := instr.(*ssa.Phi)
		if !ok {
			break
		}
		fg.assumeBelow(fg.val[phi][0], fg.famIn(fg.st, "wm"))
	}
	for _, ai := range li.autoInv {
		fg.emit("(assert (=> %s %s)) ; automatic range-index invariant", rname, ai(li.phiHead))
	}
	if li.spec != nil {
		env := fg.loopEnv(li, li.headSt, li.phiHead)
		env.assume = true
		for _, inv := range li.spec.Invariants {
			t := env.Tr(inv.E)
			if fg.clauseFailed(inv) {
				continue
			}
			fg.emit("(assert (=> %s %s)) ; invariant %s", rname, t.S, inv.Pos)
		}
		if li.spec.Decreases != nil {
			t := env.Tr(li.spec.Decreases.E)
			li.decHead = fg.fresh("dec")
			fg.emitDef("%s", "Int", "%s", li.decHead, t.S)
		}
		if li.spec.Bound != nil && li.spec.Decreases != nil {
			// variant at entry is bounded by a size-only expression
			ienv := fg.loopEnv(li, li.initSt, initVals)
			d := ienv.Tr(li.spec.Decreases.E)
			bexp := ienv.Tr(li.spec.Bound.E)
			save := fg.curReach
			fg.curReach = li.initReach
			fg.obl("bound", fmt.Sprintf("loop%d.bound", li.ordinal), li.pos, pick(li.spec.Bound.Tags, []string{"C09"}), "(<= "+d.S+" "+bexp.S+")", li.spec.Bound.Text)
			fg.curReach = save
		}
	}
}

func pick(a, b []string) []string {
	if len(a) > 0 {
		return a
	}
	return b
}

func (fg *FuncGen) funcTags() []string {
	if fg.c != nil {
		return fg.c.Tags
	}
	return nil
}

func (fg *FuncGen) finishLoops() {
	var lis []*loopInfo
	for _, li := range fg.loops {
		lis = append(lis, li)
	}
	if fg.c != nil {
		have := map[int]bool{}
		for _, li := range fg.loops {
			have[li.ordinal] = true
		}
		var ords []int
		for n := range fg.c.Loops {
			ords = append(ords, n)
		}
		sort.Ints(ords)
		for _, n := range ords {
			if have[n] {
				continue
			}
			ls := fg.c.Loops[n]
			tagset := map[string]bool{}
			for _, inv := range ls.Invariants {
				for _, t := range pick(inv.Tags, fg.c.Tags) {
					tagset[t] = true
				}
			}
			var tags []string
			for t := range tagset {
				tags = append(tags, t)
			}
			sort.Strings(tags)
			fg.lost(fmt.Sprintf("loop%d", n), tags, fg.c.Pos, fmt.Sprintf("the contract has invariants for loop %d, which the function does not have", n))
		}
	}
	sort.Slice(lis, func(i, j int) bool { return lis[i].ordinal < lis[j].ordinal })
	for _, li := range lis {
		b := li.header
		// C15: the iteration order of a map is the one source of nondeterminism in sequential Go; a loop over a
		// map must carry an invariant (tagged C15) that ties what it has computed to the SET of members visited
		for _, in := range b.Instrs {
			if nx, ok := in.(*ssa.Next); ok && !nx.IsString {
				has := false
				if li.spec != nil {
					for _, inv := range li.spec.Invariants {
						for _, t := range inv.Tags {
							if t == "C15" {
								has = true
							}
						}
					}
				}
				goal := "false"
				if has {
					goal = "true"
				}
				fg.obls = append(fg.obls, &Obligation{Name: fmt.Sprintf("%s/order.loop%d", shortKey(fg.key), li.ordinal), Kind: "order", Func: fg.key, Tags: []string{"C15"},
					Guard: "true", Goal: goal, Expect: "unsat", Block: -2, Via: -1, Pos: fg.g.pos(li.pos),
					Text: "loop over a map carries an invariant (tagged C15) that determines its effect from the set of members visited, whatever the order"})
			}
		}
		// C09: a loop that is not a range loop (whose trip count Go fixes on entry) must carry a decreases clause
		if !fg.loopIsRange(li) && (li.spec == nil || li.spec.Decreases == nil) {
			fg.obls = append(fg.obls, &Obligation{Name: fmt.Sprintf("%s/term.loop%d", shortKey(fg.key), li.ordinal), Kind: "term", Func: fg.key, Tags: []string{"C09"},
				Guard: "true", Goal: "false", Expect: "unsat", Block: -2, Via: -1, Pos: fg.g.pos(li.pos),
				Text: "a loop that is not a range loop carries a decreases clause (a non-negative integer measure that every iteration lowers)"})
		}
		for _, p := range b.Preds {
			if !fg.isBackEdge(p, b) {
				continue
			}
			if _, ok := fg.reach[p]; !ok {
				continue
			}
			fg.curReach = fg.edgeReach(p, b)
			fg.segIdx = p.Index
			first := len(fg.obls)
			defer func(first int, p *ssa.BasicBlock, guard string) { fg.splitByPred(first, p, guard) }(first, p, fg.curReach)
			vals := map[*ssa.Phi]string{}
			for _, instr := range b.Instrs {
				phi, ok := instr.(*ssa.Phi)
				if !ok {
					break
				}
				vals[phi] = fg.valueOf(fg.phiEdgeValue(phi, b, p)).S
			}
			for i, ai := range li.autoInv {
				fg.obl("inv.pres", fmt.Sprintf("loop%d.auto%d.pres", li.ordinal, i+1), li.pos, safetyTags, ai(vals), "range index stays within bounds")
			}
			if li.spec == nil {
				continue
			}
			env := fg.loopEnv(li, fg.stOut[p], vals)
			tags := fg.funcTags()
			for i, inv := range li.spec.Invariants {
				t := env.Tr(inv.E)
				if fg.clauseFailed(inv) {
					continue
				}
				fg.obl("inv.pres", fmt.Sprintf("loop%d.inv%d.pres", li.ordinal, i+1), li.pos, pick(inv.Tags, tags), t.S, inv.Text)
			}
			if li.spec.Decreases != nil {
				t := env.Tr(li.spec.Decreases.E)
				fg.obl("var", fmt.Sprintf("loop%d.decreases", li.ordinal), li.pos, pick(li.spec.Decreases.Tags, []string{"C09"}),
					fmt.Sprintf("(and (>= %s 0) (< %s %s))", li.decHead, t.S, li.decHead), li.spec.Decreases.Text)
			}
		}
	}
}

// coverReturns (thorough tier): one reachability cover per return statement
var coverReturns bool

func (fg *FuncGen) finishReturns() {
	if coverReturns && fg.c != nil && len(fg.c.Ensures) > 0 {
		// reachability covers where a vacuous path would matter: functions with postconditions
		for k, b := range fg.retBlocks {
			o := &Obligation{Name: fmt.Sprintf("%s/cover.ret%d", shortKey(fg.key), k+1), Kind: "cover", Func: fg.key, Guard: fg.reach[b], Goal: "false", Expect: "sat",
				Params: fg.paramConsts, Block: b.Index, Via: -1, Text: "the path condition of this return is satisfiable under all assumptions made on the way (vacuity guard)"}
			if in := b.Instrs[len(b.Instrs)-1]; in.Pos().IsValid() {
				o.Pos = fg.g.pos(in.Pos())
			}
			fg.obls = append(fg.obls, o)
		}
	}
	if fg.c == nil {
		return
	}
	nEns := 0
	for _, en := range fg.c.Ensures {
		if !en.Defines {
			nEns++
		}
	}
	merge := nEns*len(fg.retBlocks) > 300
	for k, b := range fg.retBlocks {
		fg.segIdx = b.Index
		fg.curReach = fg.reach[b]
		first := len(fg.obls)
		defer func(first int, b *ssa.BasicBlock) { fg.splitByPred(first, b, fg.reach[b]) }(first, b)
		env := fg.funcEnv(fg.retSt[b], State{}, fg.retVals[b])
		if merge {
			// many returns x many clauses: one obligation per return (conjunction of all postconditions)
			var parts []string
			var partObls []*Obligation
			tagset := map[string]bool{}
			for i, en := range fg.c.Ensures {
				if en.Defines {
					continue
				}
				t := env.Tr(en.E)
				if fg.clauseFailed(en) {
					continue
				}
				parts = append(parts, t.S)
				for _, tg := range pick(en.Tags, fg.c.Tags) {
					tagset[tg] = true
				}
				detail := fmt.Sprintf("post.%d", i+1)
				if en.Label != "" {
					detail = "post." + en.Label
				}
				partObls = append(partObls, &Obligation{Name: fmt.Sprintf("%s/%s@ret%d", shortKey(fg.key), detail, k+1), Kind: "post", Func: fg.key, Tags: pick(en.Tags, fg.c.Tags),
					Guard: fg.curReach, Goal: t.S, Text: en.Text, Expect: "unsat", Params: fg.paramConsts, Block: fg.segIdx, Via: -1})
			}
			var tags []string
			for tg := range tagset {
				tags = append(tags, tg)
			}
			sort.Strings(tags)
			o := fg.obl("post", fmt.Sprintf("post.all@ret%d", k+1), fg.fn.Pos(), tags, "(and "+strings.Join(parts, " ")+")", "all postconditions of "+shortKey(fg.key))
			if in := b.Instrs[len(b.Instrs)-1]; in.Pos().IsValid() {
				o.Pos = fg.g.pos(in.Pos())
			}
			for _, po := range partObls {
				po.Pos = o.Pos
			}
			o.Parts = partObls
			continue
		}
		for i, en := range fg.c.Ensures {
			if en.Defines {
				continue
			}
			t := env.Tr(en.E)
			if fg.clauseFailed(en) {
				continue
			}
			detail := fmt.Sprintf("post.%d", i+1)
			if en.Label != "" {
				detail = "post." + en.Label
			}
			if len(fg.retBlocks) > 1 {
				detail = fmt.Sprintf("%s@ret%d", detail, k+1)
			}
			o := fg.obl("post", detail, fg.fn.Pos(), pick(en.Tags, fg.c.Tags), t.S, en.Text)
			if in := b.Instrs[len(b.Instrs)-1]; in.Pos().IsValid() {
				o.Pos = fg.g.pos(in.Pos())
			}
		}
	}
}

func (fg *FuncGen) mergeReturnStates() State {
	bs := fg.retBlocks
	fams := map[string]bool{}
	for _, p := range bs {
		for f := range fg.retSt[p] {
			fams[f] = true
		}
	}
	var names []string
	for f := range fams {
		names = append(names, f)
	}
	sort.Strings(names)
	st := State{}
	for _, f := range names {
		first := fg.famIn(fg.retSt[bs[0]], f)
		same := true
		for _, p := range bs[1:] {
			if fg.famIn(fg.retSt[p], f) != first {
				same = false
			}
		}
		if same {
			st[f] = first
			continue
		}
		term := fg.famIn(fg.retSt[bs[len(bs)-1]], f)
		for i := len(bs) - 2; i >= 0; i-- {
			term = fmt.Sprintf("(ite %s %s %s)", fg.reach[bs[i]], fg.famIn(fg.retSt[bs[i]], f), term)
		}
		fg.ver[f]++
		sym := fmt.Sprintf("%s!%d", f, fg.ver[f])
		fg.emitDef("%s", "%s", "%s", sym, fg.g.families[f], term)
		st[f] = sym
	}
	return st
}

func (fg *FuncGen) assignedFamilies() map[string]bool {
	out := map[string]bool{}
	if fg.c == nil {
		return out
	}
	for _, a := range fg.c.Assigns {
		for _, f := range fg.assignFamilies(a, fg.fn) {
			out[f] = true
		}
	}
	return out
}

// assignFamilies maps an assigns entry ("p.curr", "*t", "any") of function fn to heap families.
func (fg *FuncGen) assignFamilies(a string, fn *ssa.Function) []string {
	return fg.g.assignFamilies(a, fn)
}

func (g *Gen) assignFamilies(a string, fn *ssa.Function) []string {
	var params []*types.Var
	sig := fn.Signature
	if sig.Recv() != nil {
		params = append(params, sig.Recv())
	}
	for i := 0; i < sig.Params().Len(); i++ {
		params = append(params, sig.Params().At(i))
	}
	find := func(n string) types.Type {
		for _, p := range params {
			if p.Name() == n {
				return p.Type()
			}
		}
		return nil
	}
	if strings.HasPrefix(a, "fam:") {
		return []string{a[4:]}
	}
	if i := strings.Index(a, "@"); i > 0 {
		fam := a[i+1:]
		srt := "(Array Int Int)"
		if fam == "B_ok" || fam == "B_okprev" {
			srt = "(Array Int Bool)"
		}
		g.Family(fam, srt)
		return []string{fam}
	}
	if strings.HasPrefix(a, "*") {
		t := find(a[1:])
		if t == nil {
			return nil
		}
		pt, ok := t.Underlying().(*types.Pointer)
		if !ok {
			return nil
		}
		if st, ok := pt.Elem().Underlying().(*types.Struct); ok {
			var out []string
			for i := 0; i < st.NumFields(); i++ {
				out = append(out, g.FieldFamily(pt.Elem(), i))
			}
			return out
		}
		return []string{g.CellFamily(g.SortOf(pt.Elem()))}
	}
	if i := strings.Index(a, "."); i > 0 {
		t := find(a[:i])
		if t == nil {
			return nil
		}
		pt, ok := t.Underlying().(*types.Pointer)
		if !ok {
			return nil
		}
		st, ok := pt.Elem().Underlying().(*types.Struct)
		if !ok {
			return nil
		}
		for k := 0; k < st.NumFields(); k++ {
			if st.Field(k).Name() == a[i+1:] {
				return []string{g.FieldFamily(pt.Elem(), k)}
			}
		}
	}
	return nil
}

// assumeTypeInvsForParams: the fields of struct objects passed by pointer hold well-formed Go values.
func (fg *FuncGen) assumeTypeInvsForParams() {
	for _, p := range fg.fn.Params {
		pt, ok := p.Type().Underlying().(*types.Pointer)
		if !ok {
			continue
		}
		st, ok := pt.Elem().Underlying().(*types.Struct)
		if !ok || fg.g.SortOf(pt.Elem()) == "Dec" {
			continue
		}
		ref := fg.val[p][0].S
		if ti := fg.typeInvFor(p.Type()); ti != nil {
			fg.assumed = append(fg.assumed, "type invariant of "+ti.Type+" for parameter "+p.Name())
			fg.emit("(assert (=> (> %s 0) %s)) ; type invariant of the parameter", ref, fg.typeInvTerm(ti, p.Type(), ref))
		}
		for i := 0; i < st.NumFields(); i++ {
			fam := fg.g.FieldFamily(pt.Elem(), i)
			if w := fg.g.WF(st.Field(i).Type(), "(select "+fam+"!0 "+ref+")"); w != "" {
				fg.emit("(assert (=> (> %s 0) %s))", ref, w)
			}
		}
	}
}

// emitDef introduces a named constant equal to a term (declare + assert rather than define-fun:
// solvers expand define-fun macros textually, which explodes on long merge chains).
func (fg *FuncGen) emitDef(nameFmt, sortFmt, termFmt string, a ...interface{}) {
	n1 := strings.Count(nameFmt, "%")
	n2 := strings.Count(sortFmt, "%")
	name := fmt.Sprintf(nameFmt, a[:n1]...)
	srt := fmt.Sprintf(sortFmt, a[n1:n1+n2]...)
	term := fmt.Sprintf(termFmt, a[n1+n2:]...)
	fmt.Fprintf(fg.seg(), "(declare-const %s %s)\n(assert (= %s %s))\n", name, srt, name, term)
}

// noteHeap queues the heap-schematic axioms for a heap term first mentioned in the current segment.
func (fg *FuncGen) noteHeap(term string) {
	if fg.heapSeen == nil {
		fg.heapSeen = map[string]bool{}
	}
	k := fmt.Sprintf("%d|%s", fg.segIdx, term)
	if fg.heapSeen[k] {
		return
	}
	fg.heapSeen[k] = true
	fg.heapQueue = append(fg.heapQueue, [2]string{fmt.Sprint(fg.segIdx), term})
}

// flushHeaps emits queued axiom instances into the segments that mention the heap terms.
func (fg *FuncGen) flushHeaps() {
	for len(fg.heapQueue) > 0 {
		q := fg.heapQueue[0]
		fg.heapQueue = fg.heapQueue[1:]
		var seg int
		fmt.Sscan(q[0], &seg)
		save := fg.segIdx
		fg.segIdx = seg
		env := fg.baseEnv(State{}, State{})
		env.onHeap = nil
		for _, l := range fg.g.InstHeapAxioms(env, q[1]) {
			fg.emit("%s", l)
		}
		fg.segIdx = save
	}
}

// Call logs: for every call to a repository function inside a range-over-slice loop the generator
// keeps ghost arrays indexed by the iteration number holding the call's results, so that loop
// invariants and postconditions can speak about "the k-th result" (names log<N>, log<N>e).
type logInfo struct {
	scalar bool
	n     int
	call  *ssa.Call
	li    *loopInfo
	fams  []string
	sorts []string
}

func (fg *FuncGen) findLogCalls() {
	fg.logCalls = map[*ssa.Call]*logInfo{}
	var calls, scalars []*ssa.Call
	for _, b := range fg.fn.Blocks {
		for _, in := range b.Instrs {
			c, ok := in.(*ssa.Call)
			if !ok || c.Common().IsInvoke() {
				continue
			}
			callee := c.Common().StaticCallee()
			if callee == nil || !fg.g.IsRepoFunc(callee) || callee.Signature.Results().Len() < 2 {
				continue
			}
			// innermost range-index loop containing the call
			var best *loopInfo
			for _, li := range fg.loops {
				if li.isRangeIndex && li.blocks[b] {
					if best == nil || len(li.blocks) < len(best.blocks) {
						best = li
					}
				}
			}
			if best == nil {
				// not inside a range loop: a scalar log (names call<N>, call<N>e), but only outside any loop
				inLoop := false
				for _, li := range fg.loops {
					if li.blocks[b] {
						inLoop = true
					}
				}
				if !inLoop {
					fg.logCalls[c] = &logInfo{call: c}
					scalars = append(scalars, c)
				}
				continue
			}
			// only when that loop is the innermost loop around the call
			inner := false
			for _, li := range fg.loops {
				if li != best && li.blocks[b] && len(li.blocks) < len(best.blocks) {
					inner = true
				}
			}
			if inner {
				continue
			}
			fg.logCalls[c] = &logInfo{call: c, li: best}
			calls = append(calls, c)
		}
	}
	sort.Slice(calls, func(i, j int) bool { return calls[i].Pos() < calls[j].Pos() })
	for i, c := range calls {
		l := fg.logCalls[c]
		l.n = i + 1
		res := c.Common().Signature().Results()
		for k := 0; k < res.Len(); k++ {
			srt := fg.g.SortOf(res.At(k).Type())
			fam := fg.g.Family(fmt.Sprintf("LOG_%s_%d_%d", smtIdent(shortKey(fg.key)), l.n, k), "(Array Int "+srt+")")
			l.fams = append(l.fams, fam)
			l.sorts = append(l.sorts, srt)
		}
		fg.logList = append(fg.logList, l)
	}
	sort.Slice(scalars, func(i, j int) bool { return scalars[i].Pos() < scalars[j].Pos() })
	for i, c := range scalars {
		l := fg.logCalls[c]
		l.n = i + 1
		l.scalar = true
		res := c.Common().Signature().Results()
		for k := 0; k < res.Len(); k++ {
			srt := fg.g.SortOf(res.At(k).Type())
			fam := fg.g.Family(fmt.Sprintf("LOG_%s_c%d_%d", smtIdent(shortKey(fg.key)), l.n, k), srt)
			l.fams = append(l.fams, fam)
			l.sorts = append(l.sorts, srt)
		}
		fg.logList = append(fg.logList, l)
	}
}

func (fg *FuncGen) logRangeIndex(li *loopInfo) string {
	for _, in := range li.header.Instrs {
		if add, ok := in.(*ssa.BinOp); ok && add.Op == token.ADD {
			if phi, ok := add.X.(*ssa.Phi); ok && phi.Comment == "rangeindex" {
				return fg.valueOf(add).S
			}
		}
	}
	return "0"
}

func (fg *FuncGen) recordLog(c *ssa.Call, rs []TTerm) {
	l := fg.logCalls[c]
	if l == nil {
		return
	}
	if l.scalar {
		for k, f := range l.fams {
			if k < len(rs) {
				fg.setFam(f, rs[k].S)
			}
		}
		return
	}
	idx := fg.logRangeIndex(l.li)
	for k, f := range l.fams {
		if k < len(rs) {
			fg.setFam(f, "(store "+fg.famIn(fg.st, f)+" "+idx+" "+rs[k].S+")")
		}
	}
}

// logName resolves log<N> / log<N>e against a state.
func (fg *FuncGen) logName(name string, st State) (TTerm, bool) {
	scalar := false
	if strings.HasPrefix(name, "call") {
		scalar = true
		name = "log" + name[4:]
	}
	if !strings.HasPrefix(name, "log") {
		return TTerm{}, false
	}
	rest := name[3:]
	k := 0
	if strings.HasSuffix(rest, "e") {
		k = 1
		rest = rest[:len(rest)-1]
	}
	n := 0
	if _, err := fmt.Sscan(rest, &n); err != nil {
		return TTerm{}, false
	}
	for _, l := range fg.logList {
		if l.n == n && l.scalar == scalar && k < len(l.fams) {
			if scalar {
				return TTerm{S: fg.famIn(st, l.fams[k]), Sort: l.sorts[k]}, true
			}
			return TTerm{S: fg.famIn(st, l.fams[k]), Sort: "(Array Int " + l.sorts[k] + ")"}, true
		}
	}
	return TTerm{}, false
}

// splitByPred replaces the obligations obls[first:] generated in block p (a block with many
// predecessors, e.g. the latch of a big switch inside a loop) by one copy per predecessor of p:
// reach_p is the disjunction of the incoming edges, so the conjunction of the copies is the original.
func (fg *FuncGen) splitByPred(first int, p *ssa.BasicBlock, guard string) {
	var preds []*ssa.BasicBlock
	for _, q := range p.Preds {
		if !fg.isBackEdge(q, p) {
			if _, ok := fg.reach[q]; ok {
				preds = append(preds, q)
			}
		}
	}
	if len(preds) < 4 || fg.loops[p] != nil || first >= len(fg.obls) {
		return
	}
	orig := append([]*Obligation{}, fg.obls[first:]...)
	fg.obls = fg.obls[:first]
	for _, o := range orig {
		if o.Block != p.Index {
			fg.obls = append(fg.obls, o)
			continue
		}
		for k, q := range preds {
			c := *o
			c.Name = fmt.Sprintf("%s~%d", o.Name, k+1)
			c.Guard = "(and " + fg.edgeReach(q, p) + " " + o.Guard + ")"
			c.Via = q.Index
			fg.obls = append(fg.obls, &c)
		}
	}
}

// Undecided: a contract clause that could not be related to the current code (a name it mentions no
// longer exists, e.g. after a refactoring).  The clause is skipped; the automatic obligations of the
// function are still generated.
type Undecided struct {
	Func, Pos, Text, Reason string
	Tags                    []string
}

func (fg *FuncGen) clauseFailed(c *Clause) bool {
	if fg.err == nil {
		return false
	}
	tags := c.Tags
	if len(tags) == 0 && fg.c != nil {
		tags = fg.c.Tags
	}
	fg.undecided = append(fg.undecided, Undecided{Func: fg.key, Pos: c.Pos, Text: c.Text, Reason: fg.err.Error(), Tags: tags})
	lbl := c.Label
	if lbl == "" {
		lbl = c.Kind
	}
	fg.lost(lbl, tags, c.Pos, fmt.Sprintf("clause cannot be stated on this code (%v): %s", fg.err, c.Text))
	fg.err = nil
	return true
}

// lost: a clause of the contract has lost its anchor in the code (the call site, loop, name or function it speaks
// about is gone).  The obligation it stood for was discharged on the tree the contract was written for and can no
// longer be generated: the property is not proved for this tree, and the check says so under the obligation's name.
func (fg *FuncGen) lost(label string, tags []string, pos, text string) {
	name := fmt.Sprintf("%s/lost.%s", shortKey(fg.key), label)
	for _, o := range fg.obls {
		if o.Name == name {
			return
		}
	}
	fg.obls = append(fg.obls, &Obligation{Name: name, Kind: "lost", Func: fg.key, Tags: tags, Guard: "true", Goal: "false", Expect: "unsat",
		Block: -2, Via: -1, Pos: pos, Text: text})
}

// ---------------------------------------------------------------------------
// linear use of AST nodes (contract flag `linear`): G_pend holds the nodes that were returned by a
// sub-parser or allocated in this activation and have not yet been stored into another node, passed on to
// a callee or returned.  At a successful return nothing may be left: a parsed sub-expression that is not
// part of the result has been dropped silently.

func isNodeType(t types.Type) bool {
	nt, ok := types.Unalias(t).(*types.Named)
	return ok && nt.Obj().Name() == "Node" && nt.Obj().Pkg() != nil && strings.HasSuffix(nt.Obj().Pkg().Path(), "/internal/parser")
}

func (fg *FuncGen) pendSet(t TTerm, val bool) {
	if !fg.linear || t.Sort != "Iface" {
		return
	}
	cur := fg.famIn(fg.st, "G_pend")
	fg.setFam("G_pend", fmt.Sprintf("(ite (= (itype %s) 0) %s (store %s (iref %s) %v))", t.S, cur, cur, t.S, val))
}

// newBareFuncGen: a FuncGen without a Go function behind it (lemma obligations): only the prologue segment is used.
func newBareFuncGen(g *Gen, key string) *FuncGen {
	return &FuncGen{g: g, key: key, ver: map[string]int{}, counters: map[string]int{}, reach: map[*ssa.BasicBlock]string{},
		callsExternalUnmodelled: map[string]bool{}}
}

// loopIsRange: the loop is a range loop over a slice, array, string, integer or map; Go fixes the number of
// iterations of such a loop when it is entered (the hidden index or iterator cannot be assigned by the body).
func (fg *FuncGen) loopIsRange(li *loopInfo) bool {
	for _, in := range li.header.Instrs {
		switch x := in.(type) {
		case *ssa.Phi:
			if x.Comment == "rangeindex" {
				return true
			}
		case *ssa.Next:
			return true
		}
	}
	return false
}

// recSeq numbers the calls to one callee inside a recursive cycle (source order of translation)
func (fg *FuncGen) recSeq(key string) int {
	if fg.recN == nil {
		fg.recN = map[string]int{}
	}
	fg.recN[key]++
	return fg.recN[key]
}

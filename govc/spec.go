package main

// Translation of clause expressions to SMT-LIB terms.

import (
	"os"
	"fmt"
	"go/types"
	"strings"
)

type TTerm struct {
	S    string
	Sort string
	T    types.Type // Go type when known (pointers to structs, struct values)
}

type State map[string]string

func (s State) Copy() State {
	n := State{}
	for k, v := range s {
		n[k] = v
	}
	return n
}

type Env struct {
	g      *Gen
	vars   map[string]TTerm
	lookup func(name string) (TTerm, bool)
	st     State // current heap state: family -> symbol
	old    State // pre-state (for old())
	wm0    string
	lemmaLimit int                // > 0 while a lemma is being proved: lemmas from this index on are not available
	cbSeen string                 // callback loop: the set of slice indices handed to the callback so far
	cbElem func(k string) TTerm   // callback loop: element k of the slice before the call
	famOf  func(fam string) string // returns current symbol of a family in st, creating the initial version on demand
	famOld func(fam string) string
	err    *error
	fnName string
	onHeap func(term string) // called for every heap bundle a clause mentions
	fuel   string            // fuel term used for recursive ghost functions ("" = default 2 levels)
	usedFuel *bool
	assume bool              // the clause is being assumed: quantified formulas generalise over fuel
}

func (e *Env) fail(format string, a ...interface{}) TTerm {
	if *e.err == nil {
		*e.err = fmt.Errorf(format, a...)
	}
	return TTerm{S: "false", Sort: "Bool"}
}

func (e *Env) withVars(extra map[string]TTerm) *Env {
	n := *e
	n.vars = map[string]TTerm{}
	for k, v := range e.vars {
		n.vars[k] = v
	}
	for k, v := range extra {
		n.vars[k] = v
	}
	return &n
}

func (e *Env) asOld() *Env {
	n := *e
	n.st = e.old
	n.famOf = e.famOld
	return &n
}

func sortFromName(s string) string {
	switch s {
	case "int", "Int":
		return "Int"
	case "bool", "Bool":
		return "Bool"
	case "string", "Str":
		return "Str"
	case "any", "Val":
		return "Val"
	case "Slice", "Seq":
		return "Slice"
	case "Iface", "error", "Node", "Err":
		return "Iface"
	case "Dec":
		return "Dec"
	case "F64":
		return "F64"
	case "F32":
		return "F32"
	case "Ref", "Map":
		return "Int"
	case "ValArr":
		return "(Array Int Val)"
	case "ErrArr":
		return "(Array Int Iface)"
	case "BoolArr":
		return "(Array Int Bool)"
	case "IntArr":
		return "(Array Int Int)"
	}
	return s
}

func (e *Env) seq(elemSort string) string { return e.famOf(e.g.SeqFamily(elemSort)) }

func (e *Env) Tr(x *Expr) TTerm {
	switch x.Op {
	case "int":
		if strings.HasPrefix(x.Name, "-") {
			return TTerm{S: "(- " + x.Name[1:] + ")", Sort: "Int"}
		}
		return TTerm{S: x.Name, Sort: "Int"}
	case "bool":
		return TTerm{S: x.Name, Sort: "Bool"}
	case "str":
		return TTerm{S: e.g.StrConst(x.Name), Sort: "Str"}
	case "nil":
		return TTerm{S: "nil", Sort: "Nil"}
	case "var":
		if t, ok := e.vars[x.Name]; ok {
			return t
		}
		if e.lookup != nil {
			if t, ok := e.lookup(x.Name); ok {
				return t
			}
		}
		switch x.Name {
		case "MaxInt", "MinInt", "MaxAlloc":
			return TTerm{S: x.Name, Sort: "Int"}
		case "wm0":
			return TTerm{S: e.wm0, Sort: "Int"}
		case "ppos":
			e.g.Family("G_pos", "Int")
			return TTerm{S: e.famOf("G_pos"), Sort: "Int"}
		case "heap":
			v, d, c := e.mapFams()
			sp, sv := e.scopeFams()
			t := "(mkheap " + e.seq("Val") + " " + v + " " + d + " " + c + " " + sp + " " + sv + ")"
			if e.onHeap != nil {
				e.onHeap(t)
			}
			return TTerm{S: t, Sort: "Heap"}
		}
		if g := e.g.Spec.GhostIdx[x.Name]; g != nil && len(g.Params) == 0 {
			return TTerm{S: g.Name, Sort: sortFromName(g.Sort)}
		}
		return e.fail("unknown name %q", x.Name)
	case "old":
		return e.asOld().Tr(x.Args[0])
	case "!":
		a := e.Tr(x.Args[0])
		return TTerm{S: "(not " + a.S + ")", Sort: "Bool"}
	case "neg":
		a := e.Tr(x.Args[0])
		return TTerm{S: "(- " + a.S + ")", Sort: "Int"}
	case "&&", "||", "==>", "<==>":
		a, b := e.Tr(x.Args[0]), e.Tr(x.Args[1])
		if a.Sort != "Bool" || b.Sort != "Bool" {
			return e.fail("operands of %s must be Bool in %s (got %s, %s)", x.Op, x, a.Sort, b.Sort)
		}
		op := map[string]string{"&&": "and", "||": "or", "==>": "=>", "<==>": "="}[x.Op]
		return TTerm{S: "(" + op + " " + a.S + " " + b.S + ")", Sort: "Bool"}
	case "+", "-", "*":
		a, b := e.Tr(x.Args[0]), e.Tr(x.Args[1])
		return TTerm{S: "(" + x.Op + " " + a.S + " " + b.S + ")", Sort: "Int"}
	case "/":
		a, b := e.Tr(x.Args[0]), e.Tr(x.Args[1])
		return TTerm{S: "(tdiv " + a.S + " " + b.S + ")", Sort: "Int"}
	case "%":
		a, b := e.Tr(x.Args[0]), e.Tr(x.Args[1])
		return TTerm{S: "(trem " + a.S + " " + b.S + ")", Sort: "Int"}
	case "<", "<=", ">", ">=":
		a, b := e.Tr(x.Args[0]), e.Tr(x.Args[1])
		if a.Sort == "Str" && b.Sort == "Str" {
			switch x.Op {
			case "<":
				return TTerm{S: "(gs.lt " + a.S + " " + b.S + ")", Sort: "Bool"}
			case ">":
				return TTerm{S: "(gs.lt " + b.S + " " + a.S + ")", Sort: "Bool"}
			case "<=":
				return TTerm{S: "(not (gs.lt " + b.S + " " + a.S + "))", Sort: "Bool"}
			default:
				return TTerm{S: "(not (gs.lt " + a.S + " " + b.S + "))", Sort: "Bool"}
			}
		}
		return TTerm{S: "(" + x.Op + " " + a.S + " " + b.S + ")", Sort: "Bool"}
	case "==", "!=":
		a, b := e.Tr(x.Args[0]), e.Tr(x.Args[1])
		s := e.eq(a, b, x)
		if x.Op == "!=" {
			s = "(not " + s + ")"
		}
		return TTerm{S: s, Sort: "Bool"}
	case "forall", "exists":
		ex := map[string]TTerm{}
		var bs []string
		for _, b := range x.Bound {
			srt := sortFromName(b[1])
			nm := "q_" + b[0]
			ex[b[0]] = TTerm{S: nm, Sort: srt}
			bs = append(bs, "("+nm+" "+srt+")")
		}
		ne := e.withVars(ex)
		used := false
		if e.fuel == "" && e.assume {
			ne.fuel = "q_ly"
			ne.usedFuel = &used
		}
		body := ne.Tr(x.Args[0])
		var trigs []string
		for _, t := range x.Trig {
			trigs = append(trigs, ne.Tr(t).S)
		}
		if used {
			bs = append(bs, "(q_ly Fuel)")
		}
		if len(trigs) > 0 {
			return TTerm{S: "(" + x.Op + " (" + strings.Join(bs, " ") + ") (! " + body.S + " :pattern (" + strings.Join(trigs, " ") + ")))", Sort: "Bool"}
		}
		if false {
			var ts []string
			for _, t := range x.Trig {
				ts = append(ts, ne.Tr(t).S)
			}
			return TTerm{S: "(" + x.Op + " (" + strings.Join(bs, " ") + ") (! " + body.S + " :pattern (" + strings.Join(ts, " ") + ")))", Sort: "Bool"}
		}
		return TTerm{S: "(" + x.Op + " (" + strings.Join(bs, " ") + ") " + body.S + ")", Sort: "Bool"}
	case "index":
		a, i := e.Tr(x.Args[0]), e.Tr(x.Args[1])
		switch a.Sort {
		case "Slice":
			es := "Val"
			if a.T != nil {
				if sl, ok := a.T.Underlying().(*types.Slice); ok {
					es = e.g.SortOf(sl.Elem())
				}
			}
			var et types.Type
			if a.T != nil {
				if sl, ok := a.T.Underlying().(*types.Slice); ok {
					et = sl.Elem()
				}
			}
			return TTerm{S: fmt.Sprintf("(%s %s %s %s)", gatName(es), e.seq(es), a.S, i.S), Sort: es, T: et}
		case "Str":
			return TTerm{S: "(gs.at " + a.S + " " + i.S + ")", Sort: "Int"}
		}
		if strings.HasPrefix(a.Sort, "(Array Int ") {
			return TTerm{S: "(select " + a.S + " " + i.S + ")", Sort: strings.TrimSuffix(strings.TrimPrefix(a.Sort, "(Array Int "), ")")}
		}
		return e.fail("cannot index %s of sort %s", x.Args[0], a.Sort)
	case "slice":
		a, i, j := e.Tr(x.Args[0]), e.Tr(x.Args[1]), e.Tr(x.Args[2])
		switch a.Sort {
		case "Slice":
			return TTerm{S: fmt.Sprintf("(mkslice (sref %s) (+ (soff %s) %s) (- %s %s) (- (scap %s) %s))", a.S, a.S, i.S, j.S, i.S, a.S, i.S), Sort: "Slice", T: a.T}
		case "Str":
			return TTerm{S: "(gs.sub " + a.S + " " + i.S + " " + j.S + ")", Sort: "Str"}
		}
		return e.fail("cannot slice sort %s", a.Sort)
	case "field":
		a := e.Tr(x.Args[0])
		return e.field(a, x.Name, x)
	case "call":
		return e.call(x)
	}
	return e.fail("unsupported expression %s", x)
}

func (e *Env) eq(a, b TTerm, x *Expr) string {
	if a.Sort == "Nil" {
		a, b = b, a
	}
	if b.Sort == "Nil" {
		switch a.Sort {
		case "Val":
			return "(= " + a.S + " VNil)"
		case "Iface":
			return "(= (itype " + a.S + ") 0)"
		case "Int":
			return "(= " + a.S + " 0)"
		case "Slice":
			return "(= (sref " + a.S + ") 0)"
		case "Nil":
			return "true"
		}
		e.fail("cannot compare sort %s with nil in %s", a.Sort, x)
		return "false"
	}
	if a.Sort != b.Sort {
		e.fail("sort mismatch in %s: %s vs %s", x, a.Sort, b.Sort)
		return "false"
	}
	if a.Sort == "Str" {
		return "(gs.eq " + a.S + " " + b.S + ")"
	}
	return "(= " + a.S + " " + b.S + ")"
}

func (e *Env) field(a TTerm, name string, x *Expr) TTerm {
	if a.T == nil {
		return e.fail("field %s of value without Go type in %s", name, x)
	}
	t := types.Unalias(a.T)
	if p, ok := t.Underlying().(*types.Pointer); ok {
		st, ok := p.Elem().Underlying().(*types.Struct)
		if !ok {
			return e.fail("field %s of non-struct pointer", name)
		}
		for i := 0; i < st.NumFields(); i++ {
			if st.Field(i).Name() == name {
				fam := e.g.FieldFamily(p.Elem(), i)
				return TTerm{S: "(select " + e.famOf(fam) + " " + a.S + ")", Sort: e.g.SortOf(st.Field(i).Type()), T: st.Field(i).Type()}
			}
		}
		return e.fail("no field %s", name)
	}
	if st, ok := t.Underlying().(*types.Struct); ok {
		ss := e.g.structSort(t)
		for i := 0; i < st.NumFields(); i++ {
			if st.Field(i).Name() == name {
				return TTerm{S: "(" + ss.Fields[i] + " " + a.S + ")", Sort: ss.FSorts[i], T: st.Field(i).Type()}
			}
		}
		return e.fail("no field %s", name)
	}
	return e.fail("field %s of non-struct %s", name, t)
}

func (e *Env) args(x *Expr) []TTerm {
	var out []TTerm
	for _, a := range x.Args {
		out = append(out, e.Tr(a))
	}
	return out
}

// scopeFams: the two field heaps of evaluator.variableScope (part of the heap bundle ghost functions see)
func (e *Env) scopeFams() (string, string) {
	t := e.g.lookupNamed("evaluator.variableScope")
	if t == nil {
		e.g.Family("F_noscope", "(Array Int Int)")
		return e.famOf("F_noscope"), e.famOf("F_noscope")
	}
	return e.famOf(e.g.FieldFamily(t, 0)), e.famOf(e.g.FieldFamily(t, 1))
}

func (e *Env) mapFams() (string, string, string) {
	v, d, c := e.g.MapFamilies("Val")
	return e.famOf(v), e.famOf(d), e.famOf(c)
}

// mapFamsOf picks the map families by the Go type of the map term (map[string]any by default).
func (e *Env) mapFamsOf(t TTerm) (string, string, string, string) {
	srt := "Val"
	if t.T != nil {
		if mt, ok := t.T.Underlying().(*types.Map); ok {
			srt = e.g.SortOf(mt.Elem())
		}
	}
	v, d, c := e.g.MapFamilies(srt)
	return e.famOf(v), e.famOf(d), e.famOf(c), srt
}

func (e *Env) call(x *Expr) TTerm {
	a := e.args(x)
	need := func(n int) bool {
		if len(a) != n {
			e.fail("%s expects %d arguments in %s", x.Name, n, x)
			return false
		}
		return true
	}
	B := func(s string) TTerm { return TTerm{S: s, Sort: "Bool"} }
	I := func(s string) TTerm { return TTerm{S: s, Sort: "Int"} }
	un := func(f, sort string) TTerm {
		if !need(1) {
			return B("false")
		}
		return TTerm{S: "(" + f + " " + a[0].S + ")", Sort: sort}
	}
	switch x.Name {
	case "len":
		if !need(1) {
			return I("0")
		}
		switch a[0].Sort {
		case "Slice":
			return I("(slen " + a[0].S + ")")
		case "Str":
			return I("(gs.len " + a[0].S + ")")
		case "Int":
			_, _, c, _ := e.mapFamsOf(a[0])
			return I("(ite (= " + a[0].S + " 0) 0 (select " + c + " " + a[0].S + "))")
		}
		return e.fail("len of sort %s", a[0].Sort)
	case "cap":
		return un("scap", "Int")
	case "ref":
		if need(1) && a[0].Sort == "Slice" {
			return I("(sref " + a[0].S + ")")
		}
		return e.fail("ref of non-slice")
	case "isNil":
		if !need(1) {
			return B("false")
		}
		return B(e.eq(a[0], TTerm{S: "nil", Sort: "Nil"}, x))
	case "isArr":
		return un("(_ is VArr)", "Bool")
	case "isStr":
		return un("(_ is VStr)", "Bool")
	case "isObj":
		return un("(_ is VObj)", "Bool")
	case "isBool":
		return un("(_ is VBool)", "Bool")
	case "isInt":
		return un("(_ is VInt)", "Bool")
	case "isDec":
		return un("(_ is VDec)", "Bool")
	case "isJNum":
		return un("(_ is VJNum)", "Bool")
	case "isF64":
		return un("(_ is VF64)", "Bool")
	case "isF32":
		return un("(_ is VF32)", "Bool")
	case "isOther":
		return un("(_ is VOther)", "Bool")
	case "isNum":
		return un("isNum", "Bool")
	case "arr":
		t := un("varr", "Slice")
		return t
	case "str":
		return un("vstr", "Str")
	case "obj":
		return un("vobj", "Int")
	case "boolv":
		return un("vbool", "Bool")
	case "intv":
		return un("vint", "Int")
	case "kind":
		return un("vkind", "Int")
	case "dec":
		return un("vdec", "Dec")
	case "jnum":
		return un("vjnum", "Str")
	case "f64":
		return un("vf64", "F64")
	case "f32":
		return un("vf32", "F32")
	case "typeOf":
		return un("val.type", "Int")
	case "mkArr":
		return un("VArr", "Val")
	case "mkStr":
		return un("VStr", "Val")
	case "mkBool":
		return un("VBool", "Val")
	case "mkObj":
		return un("VObj", "Val")
	case "mkDec":
		return un("VDec", "Val")
	case "mkF64":
		return un("VF64", "Val")
	case "mkJNum":
		return un("VJNum", "Val")
	case "mkInt64":
		if !need(1) {
			return B("false")
		}
		return TTerm{S: "(VInt 4 " + a[0].S + ")", Sort: "Val"}
	case "mkInt":
		if !need(2) {
			return B("false")
		}
		return TTerm{S: "(VInt " + a[0].S + " " + a[1].S + ")", Sort: "Val"}
	case "ite":
		if !need(3) {
			return B("false")
		}
		if a[1].Sort == "Nil" {
			a[1] = coerceNil(a[1], a[2].Sort)
		}
		if a[2].Sort == "Nil" {
			a[2] = coerceNil(a[2], a[1].Sort)
		}
		return TTerm{S: "(ite " + a[0].S + " " + a[1].S + " " + a[2].S + ")", Sort: a[1].Sort, T: a[1].T}
	case "min":
		return I("(imin " + a[0].S + " " + a[1].S + ")")
	case "max":
		return I("(imax " + a[0].S + " " + a[1].S + ")")
	case "abs":
		return I("(ite (>= " + a[0].S + " 0) " + a[0].S + " (- " + a[0].S + "))")
	case "same":
		if !need(2) {
			return B("false")
		}
		return B("(= " + a[0].S + " " + a[1].S + ")")
	case "fresh":
		if !need(1) {
			return B("false")
		}
		switch a[0].Sort {
		case "Slice":
			return B("(or (= (scap " + a[0].S + ") 0) (>= (sref " + a[0].S + ") " + e.wm0 + "))")
		case "Int":
			return B("(>= " + a[0].S + " " + e.wm0 + ")")
		case "Iface":
			return B("(>= (iref " + a[0].S + ") " + e.wm0 + ")")
		case "Val":
			return B(fmt.Sprintf("(and (=> ((_ is VArr) %s) (or (= (scap (varr %s)) 0) (>= (sref (varr %s)) %s))) (=> ((_ is VObj) %s) (>= (vobj %s) %s)))", a[0].S, a[0].S, a[0].S, e.wm0, a[0].S, a[0].S, e.wm0))
		}
		return e.fail("fresh of sort %s", a[0].Sort)
	case "allocated":
		// allocated(x): every reference in x lies below the current allocation watermark (it exists now)
		if need(1) {
			wm := e.famOf("wm")
			switch a[0].Sort {
			case "Val":
				return B("(val.below " + a[0].S + " " + wm + ")")
			case "Slice":
				return B("(< (sref " + a[0].S + ") " + wm + ")")
			case "Int":
				return B("(< " + a[0].S + " " + wm + ")")
			}
		}
		return e.fail("allocated(value)")
	case "isOld":
		// every reference in the value existed before the call
		if !need(1) {
			return B("false")
		}
		switch a[0].Sort {
		case "Val":
			return B("(val.below " + a[0].S + " " + e.wm0 + ")")
		case "Slice":
			return B("(< (sref " + a[0].S + ") " + e.wm0 + ")")
		case "Int":
			return B("(< " + a[0].S + " " + e.wm0 + ")")
		}
		return e.fail("isOld of sort %s", a[0].Sort)
	// strings and rune tables
	case "base":
		return un("sbase", "Int")
	case "lo":
		return un("slo", "Int")
	case "hi":
		return un("shi", "Int")
	case "runes":
		return un("gs.runes", "Int")
	case "aligned":
		return un("gs.aligned", "Bool")
	case "nr":
		if need(1) {
			return I("(nr (sbase " + a[0].S + "))")
		}
	case "roff":
		if need(2) {
			return I("(roff (sbase " + a[0].S + ") " + a[1].S + ")")
		}
	case "ridx":
		if need(2) {
			return I("(ridx (sbase " + a[0].S + ") " + a[1].S + ")")
		}
	case "isbound":
		if need(2) {
			return B("(isbound (sbase " + a[0].S + ") " + a[1].S + ")")
		}
	case "unit":
		if need(2) {
			return I("(runit (sbase " + a[0].S + ") " + a[1].S + ")")
		}
	case "byteAt":
		if need(2) {
			return I("(sbyte (sbase " + a[0].S + ") " + a[1].S + ")")
		}
	case "mkstr":
		if need(3) {
			return TTerm{S: "(mkstr " + a[0].S + " " + a[1].S + " " + a[2].S + ")", Sort: "Str"}
		}
	case "sameBase":
		if need(2) {
			return B("(= (sbase " + a[0].S + ") (sbase " + a[1].S + "))")
		}
	// maps (map[string]any)
	case "has":
		if need(2) {
			_, d, _, _ := e.mapFamsOf(a[0])
			return B("(select (select " + d + " " + a[0].S + ") (skey " + a[1].S + "))")
		}
	case "get":
		if need(2) {
			v, _, _, srt := e.mapFamsOf(a[0])
			return TTerm{S: "(select (select " + v + " " + a[0].S + ") (skey " + a[1].S + "))", Sort: srt}
		}
	case "hasKey":
		if need(2) {
			_, d, _, _ := e.mapFamsOf(a[0])
			return B("(select (select " + d + " " + a[0].S + ") " + a[1].S + ")")
		}
	case "getKey":
		if need(2) {
			v, _, _, srt := e.mapFamsOf(a[0])
			return TTerm{S: "(select (select " + v + " " + a[0].S + ") " + a[1].S + ")", Sort: srt}
		}
	case "key":
		return un("skey", "Int")
	// errors / interfaces
	case "nodeHeight":
		return un("nheight", "Int")
	case "valHeight":
		return un("vheight", "Int")
	case "dyn":
		return un("itype", "Int")
	case "pref":
		return un("iref", "Int")
	case "typeid":
		if len(x.Args) == 1 && x.Args[0].Op == "str" {
			id, ok := e.g.typeIDByName(x.Args[0].Name)
			if !ok {
				return e.fail("typeid: unknown type %q", x.Args[0].Name)
			}
			return I(fmt.Sprint(id))
		}
		return e.fail("typeid needs a string literal")
	case "isType":
		// isType(iface, "pkg.Type") with pointer-ness given explicitly in the string
		if len(x.Args) == 2 && x.Args[1].Op == "str" {
			id, ok := e.g.typeIDByName(x.Args[1].Name)
			if !ok {
				// a type that the program does not declare (any more) has no values: the test is false
				e.g.noteMissingType(x.Args[1].Name)
				return B("false")
			}
			if a[0].Sort == "Val" {
				return B(fmt.Sprintf("(= (val.type %s) %d)", a[0].S, id))
			}
			return B(fmt.Sprintf("(= (itype %s) %d)", a[0].S, id))
		}
		return e.fail("isType needs (value, \"type\")")
	case "const":
		// const("pkg.Name"): value of an integer constant of the repository
		if len(x.Args) == 1 && x.Args[0].Op == "str" {
			q := x.Args[0].Name
			i := strings.LastIndex(q, ".")
			for _, p := range e.g.Pkgs {
				if i > 0 && (p.Pkg.Name() == q[:i] || p.Pkg.Path() == q[:i]) {
					if c, ok := p.Pkg.Scope().Lookup(q[i+1:]).(*types.Const); ok {
						v := c.Val().ExactString()
						if strings.HasPrefix(v, "-") {
							v = "(- " + v[1:] + ")"
						}
						return I(v)
					}
				}
			}
			return e.fail("unknown constant %q", q)
		}
	case "repoErr":
		// the error value is one the repository itself creates (a sentinel or one of its error types)
		if need(1) {
			var alts []string
			alts = append(alts, "(errors.repoSentinel "+a[0].S+")")
			errType := types.Universe.Lookup("error").Type().Underlying().(*types.Interface)
			for _, p := range e.g.Pkgs {
				sc := p.Pkg.Scope()
				for _, n := range sc.Names() {
					tn, ok := sc.Lookup(n).(*types.TypeName)
					if !ok {
						continue
					}
					pt := types.NewPointer(tn.Type())
					if types.Implements(pt, errType) {
						alts = append(alts, fmt.Sprintf("(= (itype %s) %d)", a[0].S, e.g.TypeID(pt)))
					}
				}
			}
			return B("(or " + strings.Join(alts, " ") + ")")
		}
	case "global":
		if len(x.Args) == 1 && x.Args[0].Op == "str" {
			q := x.Args[0].Name
			if !strings.Contains(q, "/") {
				// short form pkg.Name
				for _, p := range e.g.Pkgs {
					if strings.HasPrefix(q, p.Pkg.Name()+".") {
						q = p.Pkg.Path() + "." + q[len(p.Pkg.Name())+1:]
						break
					}
				}
			}
			n := "g_" + smtIdent(q)
			e.g.Global(n, "Iface", true)
			return TTerm{S: n, Sort: "Iface"}
		}
	case "boundAt":
		// boundAt(s, i): byte offset i of the window s is a code-point boundary of its text
		if need(2) && a[0].Sort == "Str" {
			return B("(isbound (sbase " + a[0].S + ") (+ (slo " + a[0].S + ") " + a[1].S + "))")
		}
		return e.fail("boundAt(string, offset)")
	case "byteOf":
		// byteOf(s, i): s[i] through a function symbol, for use under quantifiers with the trigger {byteOf(s, i)}
		if need(2) && a[0].Sort == "Str" {
			return I("(gs.byteat " + a[0].S + " " + a[1].S + ")")
		}
		return e.fail("byteOf(string, index)")
	case "pointeeStr", "pointeeVal":
		// pointeeStr(v) / pointeeVal(v): the string / value variable that the pointer boxed in the interface value v refers to
		if need(1) && a[0].Sort == "Val" {
			srt := map[string]string{"pointeeStr": "Str", "pointeeVal": "Val"}[x.Name]
			return TTerm{S: "(select " + e.famOf(e.g.CellFamily(srt)) + " (voref " + a[0].S + "))", Sort: srt}
		}
		return e.fail("%s(interface value holding a pointer)", x.Name)
	case "funcId":
		// funcId("pkg.Name"): the value of the named function when it is passed as an argument
		if len(x.Args) == 1 && x.Args[0].Op == "str" {
			return I(fmt.Sprint(e.g.FuncID(x.Args[0].Name)))
		}
		return e.fail("funcId(\"pkg.Name\")")
	case "cell":
		// cell(p): the value stored in the variable p points to (a captured variable, a local whose address is taken)
		if need(1) && a[0].T != nil {
			if pt, ok := a[0].T.Underlying().(*types.Pointer); ok {
				srt := e.g.SortOf(pt.Elem())
				return TTerm{S: "(select " + e.famOf(e.g.CellFamily(srt)) + " " + a[0].S + ")", Sort: srt, T: pt.Elem()}
			}
		}
		return e.fail("cell(pointer to a variable)")
	case "cbSeen":
		if need(1) && e.cbSeen != "" {
			return B("(select " + e.cbSeen + " " + a[0].S + ")")
		}
		return e.fail("cbSeen is only meaningful in `at callee#n invariant` clauses")
	case "cbElem":
		if need(1) && e.cbElem != nil {
			return e.cbElem(a[0].S)
		}
		return e.fail("cbElem is only meaningful in `at callee#n invariant` clauses")
	case "jsonInput":
		// the induction hypothesis of the C18 sweep: every value received so far is a finite JSON value
		return B("c18.ih")
	case "finiteVal":
		return un("val.finite", "Bool")
	case "pendingOnly":
		// pendingOnly(n1, n2, ...): the AST nodes not yet accounted for are at most the given ones (linear contracts)
		pend := e.famOf("G_pend")
		var alts []string
		for _, t := range a {
			if t.Sort != "Iface" {
				return e.fail("pendingOnly takes AST nodes")
			}
			alts = append(alts, "(= q_pk (iref "+t.S+"))")
		}
		alts = append(alts, "false")
		return B("(forall ((q_pk Int)) (! (=> (select " + pend + " q_pk) (or " + strings.Join(alts, " ") + ")) :pattern ((select " + pend + " q_pk))))")
	case "returns":
		// returns("pkg.f", receiver/arguments..., results...): f was called with these arguments and returned these results
		if len(x.Args) >= 1 && x.Args[0].Op == "str" {
			fn := e.g.funcByShortKey(x.Args[0].Name)
			if fn == nil {
				return e.fail("returns: unknown function %q", x.Args[0].Name)
			}
			rel, sorts := e.g.retRel(fn)
			if len(a)-1 != len(sorts) {
				return e.fail("returns(%q) takes %d arguments and results, got %d", x.Args[0].Name, len(sorts), len(a)-1)
			}
			var ts []string
			for i, t := range a[1:] {
				if t.Sort == "Nil" {
					t = coerceNil(t, sorts[i])
				}
				if t.Sort != sorts[i] {
					return e.fail("returns(%q): argument %d has sort %s, want %s", x.Args[0].Name, i+1, t.Sort, sorts[i])
				}
				ts = append(ts, t.S)
			}
			return B("(" + rel + " " + strings.Join(ts, " ") + ")")
		}
		return e.fail("returns(\"pkg.f\", ...)")
	case "as":
		// as(iface, "pkg.Struct"): the *pkg.Struct held by the interface value (meaningful under isType(iface, "*pkg.Struct"))
		if len(x.Args) == 2 && x.Args[1].Op == "str" && a[0].Sort == "Iface" {
			t := e.g.lookupNamed(x.Args[1].Name)
			if t == nil {
				return e.fail("as: unknown type %q", x.Args[1].Name)
			}
			return TTerm{S: "(iref " + a[0].S + ")", Sort: "Int", T: types.NewPointer(t)}
		}
		return e.fail("as(iface, \"pkg.Struct\")")
	case "deref":
		// deref(p, "pkg.Struct", "field")
		if len(x.Args) == 3 && x.Args[1].Op == "str" && x.Args[2].Op == "str" {
			t := e.g.lookupNamed(x.Args[1].Name)
			if t == nil {
				return e.fail("deref: unknown type %q", x.Args[1].Name)
			}
			return e.field(TTerm{S: a[0].S, Sort: "Int", T: types.NewPointer(t)}, x.Args[2].Name, x)
		}
		return e.fail("deref(p, \"type\", \"field\")")
	}
	if g := e.g.Spec.GhostIdx[x.Name]; g != nil {
		if len(a) != len(g.Params) {
			return e.fail("%s expects %d arguments", x.Name, len(g.Params))
		}
		var as []string
		for i, t := range a {
			if t.Sort == "Nil" {
				t = coerceNil(t, sortFromName(g.Params[i][1]))
			}
			if want := sortFromName(g.Params[i][1]); want != t.Sort {
				return e.fail("argument %d of %s: want %s, got %s in %s", i, x.Name, want, t.Sort, x)
			}
			as = append(as, t.S)
		}
		if len(as) == 0 {
			return TTerm{S: g.Name, Sort: sortFromName(g.Sort)}
		}
		if g.Body != nil && exprMentions(g.Body, g.Name) {
			f := "(LS (LS LZ))"
			if e.fuel != "" {
				f = e.fuel
				if e.usedFuel != nil {
					*e.usedFuel = true
				}
			}
			return TTerm{S: "(" + g.Name + " " + f + " " + strings.Join(as, " ") + ")", Sort: sortFromName(g.Sort)}
		}
		return TTerm{S: "(" + g.Name + " " + strings.Join(as, " ") + ")", Sort: sortFromName(g.Sort)}
	}
	if al, ok := aliases[x.Name]; ok {
		var as []string
		for _, t := range a {
			if byKey[al[0]] && t.Sort == "Str" {
				as = append(as, "(skey "+t.S+")")
			} else {
				as = append(as, t.S)
			}
		}
		if len(as) == 0 {
			return TTerm{S: al[0], Sort: al[1]}
		}
		return TTerm{S: "(" + al[0] + " " + strings.Join(as, " ") + ")", Sort: al[1]}
	}
	switch x.Name {
	case "tokT":
		if need(1) {
			e.g.Family("G_toks", "(Array Int Int)")
			return TTerm{S: "(select " + e.famOf("G_toks") + " " + a[0].S + ")", Sort: "Int"}
		}
	case "toks":
		e.g.Family("G_toks", "(Array Int Int)")
		return TTerm{S: e.famOf("G_toks"), Sort: "(Array Int Int)"}
	case "sparent":
		if need(2) {
			return TTerm{S: "(select (hsp " + a[0].S + ") " + a[1].S + ")", Sort: "Int"}
		}
	case "svars":
		if need(2) {
			return TTerm{S: "(select (hsv " + a[0].S + ") " + a[1].S + ")", Sort: "Int"}
		}
	case "upd":
		if need(3) {
			return TTerm{S: "(store " + a[0].S + " " + a[1].S + " " + a[2].S + ")", Sort: a[0].Sort}
		}
	case "at":
		if need(3) {
			return TTerm{S: fmt.Sprintf("(gat (hq %s) %s %s)", a[0].S, a[1].S, a[2].S), Sort: "Val"}
		}
	case "mhas":
		if need(3) {
			return TTerm{S: fmt.Sprintf("(select (select (hd %s) %s) (skey %s))", a[0].S, a[1].S, a[2].S), Sort: "Bool"}
		}
	case "mget":
		if need(3) {
			return TTerm{S: fmt.Sprintf("(select (select (hm %s) %s) (skey %s))", a[0].S, a[1].S, a[2].S), Sort: "Val"}
		}
	case "mhasKey":
		if need(3) {
			return TTerm{S: fmt.Sprintf("(select (select (hd %s) %s) %s)", a[0].S, a[1].S, a[2].S), Sort: "Bool"}
		}
	case "mgetKey":
		if need(3) {
			return TTerm{S: fmt.Sprintf("(select (select (hm %s) %s) %s)", a[0].S, a[1].S, a[2].S), Sort: "Val"}
		}
	case "mlen":
		if need(2) {
			return TTerm{S: fmt.Sprintf("(ite (= %s 0) 0 (select (hc %s) %s))", a[1].S, a[0].S, a[1].S), Sort: "Int"}
		}
	case "bytesSrc":
		if need(1) {
			e.g.Family("BY_src", "(Array Int Str)")
			return TTerm{S: "(select " + e.famOf("BY_src") + " (sref " + a[0].S + "))", Sort: "Str"}
		}
	case "cellDec":
		if need(1) {
			return TTerm{S: "(select " + e.famOf(e.g.CellFamily("Dec")) + " " + a[0].S + ")", Sort: "Dec"}
		}
	case "bldLen", "bldRunes", "bldOk", "bldOkPrev", "bldLast":
		if need(1) {
			fam := map[string]string{"bldLen": "B_len", "bldRunes": "B_runes", "bldOk": "B_ok", "bldOkPrev": "B_okprev", "bldLast": "B_last"}[x.Name]
			srt := "Int"
			if fam == "B_ok" || fam == "B_okprev" {
				srt = "Bool"
			}
			e.g.Family(fam, "(Array Int "+srt+")")
			return TTerm{S: "(select " + e.famOf(fam) + " " + a[0].S + ")", Sort: srt}
		}
	}
	// raw SMT function with declared signature in rawFuncs
	if sig, ok := rawFuncs[x.Name]; ok {
		var as []string
		for _, t := range a {
			as = append(as, t.S)
		}
		if len(as) == 0 {
			return TTerm{S: x.Name, Sort: sig}
		}
		return TTerm{S: "(" + x.Name + " " + strings.Join(as, " ") + ")", Sort: sig}
	}
	return e.fail("unknown function %q in %s", x.Name, x)
}

// aliases: clause-language names for prelude functions (name -> smt symbol, result sort)
var aliases = map[string][2]string{
	"decodePost": {"decode.post", "Bool"}, "decodeLastPost": {"decode.lastpost", "Bool"},
	"strIndex": {"gs.index", "Int"}, "strLastIndex": {"gs.lastindex", "Int"}, "strHasPrefix": {"gs.hasprefix", "Bool"}, "strHasSuffix": {"gs.hassuffix", "Bool"},
	"strTrim": {"gs.trim", "Str"}, "strTrimLeft": {"gs.trimleft", "Str"}, "strTrimRight": {"gs.trimright", "Str"},
	"strTrimSpace": {"gs.trimspace", "Str"}, "strTrimSpaceLeft": {"gs.trimspaceleft", "Str"}, "strTrimSpaceRight": {"gs.trimspaceright", "Str"},
	"strToLower": {"gs.tolower", "Str"}, "strToUpper": {"gs.toupper", "Str"}, "strReplace": {"gs.replace", "Str"},
	"strQuote": {"gs.quote", "Str"}, "strItoa": {"gs.itoa", "Str"}, "atoiOk": {"atoi.ok", "Bool"}, "atoiVal": {"atoi.val", "Int"},
	"f64IsInf": {"f64.isinf", "Bool"}, "f64IsNaN": {"f64.isnan", "Bool"}, "f64Floor": {"f64.floor", "F64"}, "f64Ceil": {"f64.ceil", "F64"}, "f64Abs": {"f64.abs", "F64"}, "f64Mod": {"f64.mod", "F64"},
	"f64Add": {"f64.add", "F64"}, "f64Sub": {"f64.sub", "F64"}, "f64Mul": {"f64.mul", "F64"}, "f64Div": {"f64.div", "F64"}, "f64Neg": {"f64.neg", "F64"}, "f64Of32": {"f64.of32", "F64"},
	"f64InIntRange": {"f64.inintrange", "Bool"}, "f32InIntRange": {"f32.inintrange", "Bool"}, "f32ToInt": {"f32.toint", "Int"}, "f32IsNaN": {"f32.isnan", "Bool"},
	"f64OfInt": {"f64.ofint", "F64"}, "f64IsInt": {"f64.isint", "Bool"}, "f64ToInt": {"f64.toint", "Int"},
	"decOfInt": {"dec.ofint", "Dec"}, "decOfF64": {"dec.off64", "Dec"}, "decOfF32": {"dec.off32", "Dec"}, "decParseOk": {"dec.parseok", "Bool"}, "decParse": {"dec.parse", "Dec"},
	"decCompare": {"dec.compare", "Int"}, "decAbs": {"dec.abs", "Dec"}, "decCeil": {"dec.ceil", "Dec"}, "decFloor": {"dec.floor", "Dec"},
	"decAdd": {"dec.add", "Dec"}, "decSub": {"dec.sub", "Dec"}, "decMul": {"dec.mul", "Dec"}, "decQuo": {"dec.quo", "Dec"},
	"decQuoRemQ": {"dec.quorem.q", "Dec"}, "decQuoRemR": {"dec.quorem.r", "Dec"}, "decNeg": {"dec.neg", "Dec"}, "decCmp": {"dec.cmp", "Int"},
	"decEqual": {"dec.equal", "Bool"}, "decIsZero": {"dec.iszero", "Bool"}, "decIsNaN": {"dec.isnan", "Bool"}, "decIsInf": {"dec.isinf", "Bool"}, "decIsFin": {"dec.isfin", "Bool"},
	"decInt64": {"dec.int64", "Int"}, "decInt64Ok": {"dec.int64ok", "Bool"}, "decStr": {"dec.str", "Str"}, "decIsIntegral": {"dec.isintegral", "Bool"},
	"decUnmarshal": {"dec.unmarshal", "Dec"}, "decUnmarshalOk": {"dec.unmarshalok", "Bool"}, "decZero": {"dec.zero", "Dec"},
	"jnumInt64Ok": {"jnum.int64ok", "Bool"}, "jnumInt64": {"jnum.int64", "Int"}, "jnumFloat64Ok": {"jnum.float64ok", "Bool"},
	"whole": {"gs.whole", "Bool"}, "subwindow": {"gs.subwindow", "Bool"}, "runesOf": {"gs.units", "Int"},
	"errorsIsForeign": {"errors.isf", "Bool"}, "rdSrc": {"rd.src", "Int"}, "decSrc": {"dec.src", "Int"},
	"jsonPrefixOk": {"json.prefixok", "Bool"}, "jsonRestBlank": {"json.restblank", "Bool"}, "jsonText": {"json.text", "Bool"},
	"jsonIsString": {"json.isstring", "Bool"}, "jsonIsNumber": {"json.isnumber", "Bool"},
	"valWF": {"val.wf", "Bool"}, "kindLo": {"kind.lo", "Int"}, "kindHi": {"kind.hi", "Int"},
}

// byKey: uninterpreted functions of string *contents* (their Str arguments are passed as content keys)
var byKey = map[string]bool{"dec.parse": true, "dec.parseok": true, "dec.unmarshal": true, "dec.unmarshalok": true, "atoi.ok": true, "atoi.val": true,
	"jnum.int64": true, "jnum.int64ok": true, "jnum.float64ok": true, "gs.trim": true, "gs.trimleft": true, "gs.trimright": true, "gs.trimspace": true, "gs.trimspaceleft": true, "gs.trimspaceright": true,
	"gs.quote": true, "gs.tolower": true, "gs.toupper": true, "gs.replace": true}

// rawFuncs: functions defined in the prelude or via //@ smt lines, name -> result sort.
var rawFuncs = map[string]string{
	"wrap64": "Int", "tdiv": "Int", "trem": "Int", "inint": "Bool",
	"dec.isnan": "Bool", "dec.isinf": "Bool", "dec.iszero": "Bool", "dec.ofint": "Dec",
	"val.type": "Int", "val.wf": "Bool",
}

// typeIDByName resolves "*pkg/path.Type" or "pkg/path.Type" (or a registered basic type name) to its dynamic type id.
func (g *Gen) typeIDByName(q string) (int, bool) {
	if id, ok := g.typeIDs[q]; ok {
		return id, true
	}
	ptr := strings.HasPrefix(q, "*")
	t := g.lookupNamed(strings.TrimPrefix(q, "*"))
	if t == nil {
		return 0, false
	}
	if ptr {
		t = types.NewPointer(t)
	}
	return g.TypeID(t), true
}

func (g *Gen) lookupNamed(q string) types.Type {
	i := strings.LastIndex(q, ".")
	if i < 0 {
		return nil
	}
	pkg, name := q[:i], q[i+1:]
	if !strings.Contains(pkg, "/") && !strings.Contains(pkg, ".") {
		for _, p := range g.Pkgs {
			if p.Pkg.Name() == pkg {
				if o := p.Pkg.Scope().Lookup(name); o != nil {
					return o.Type()
				}
			}
		}
	}
	if p := g.PkgByPath[pkg]; p != nil {
		if o := p.Pkg.Scope().Lookup(name); o != nil {
			return o.Type()
		}
	}
	return nil
}

// EmitGhosts writes ghost function declarations / definitions and axioms.
func (g *Gen) EmitGhosts(b *strings.Builder) error {
	var err error
	env := &Env{g: g, vars: map[string]TTerm{}, err: &err, wm0: "0", assume: true,
		famOf:  func(f string) string { return f + "!0" },
		famOld: func(f string) string { return f + "!0" }}
	for _, l := range g.Spec.RawSMT {
		b.WriteString(l + "\n")
	}
	for _, gf := range g.Spec.Ghosts {
		var ps, as, ss []string
		vars := map[string]TTerm{}
		for _, p := range gf.Params {
			srt := sortFromName(p[1])
			ps = append(ps, "(g_"+p[0]+" "+srt+")")
			as = append(as, "g_"+p[0])
			ss = append(ss, srt)
			vars[p[0]] = TTerm{S: "g_" + p[0], Sort: srt}
		}
		rs := sortFromName(gf.Sort)
		if gf.Body == nil {
			fmt.Fprintf(b, "(declare-fun %s (%s) %s)\n", gf.Name, strings.Join(ss, " "), rs)
			continue
		}
		recursive := exprMentions(gf.Body, gf.Name)
		if recursive {
			fmt.Fprintf(b, "(declare-fun %s (Fuel %s) %s)\n", gf.Name, strings.Join(ss, " "), rs)
		}
		benv := env.withVars(vars)
		if recursive {
			benv.fuel = "g_ly"
		}
		body := benv.Tr(gf.Body)
		if err != nil {
			return fmt.Errorf("ghost %s (%s): %v", gf.Name, gf.Pos, err)
		}
		if body.Sort != rs {
			return fmt.Errorf("ghost %s (%s): body has sort %s, declared %s", gf.Name, gf.Pos, body.Sort, rs)
		}
		hasHeap := false
		for _, p := range gf.Params {
			if p[1] == "Heap" {
				hasHeap = true
			}
		}
		if !recursive {
			fmt.Fprintf(b, "(define-fun %s (%s) %s %s)\n", gf.Name, strings.Join(ps, " "), rs, body.S)
		} else if hasHeap {
			// defining equation is a heap-schematic axiom, added by SynthesizeHeapGhostAxioms
		} else {
			// fuel encoding: f(LS ly, x) unfolds to the body over f(ly, ..); all fuels denote the same value
			app := "(" + gf.Name + " (LS g_ly) " + strings.Join(as, " ") + ")"
			app0 := "(" + gf.Name + " g_ly " + strings.Join(as, " ") + ")"
			fmt.Fprintf(b, "(assert (forall ((g_ly Fuel) %s) (! (= %s %s) :pattern (%s))))\n", strings.Join(ps, " "), app, body.S, app)
			fmt.Fprintf(b, "(assert (forall ((g_ly Fuel) %s) (! (= %s %s) :pattern (%s))))\n", strings.Join(ps, " "), app, app0, app)
		}
	}
	for _, ax := range g.Spec.Axioms {
		if heapVar(ax.E) != "" {
			continue // heap-schematic: instantiated per heap term inside each function (InstHeapAxioms)
		}
		t := env.Tr(ax.E)
		if err != nil {
			return fmt.Errorf("axiom %s: %v", ax.Pos, err)
		}
		if ax.LemmaIdx > 0 {
			fmt.Fprintf(b, "(assert %s) ; @lemma %d %s\n", strings.ReplaceAll(t.S, "\n", " "), ax.LemmaIdx, ax.Pos)
			continue
		}
		fmt.Fprintf(b, "(assert %s) ; axiom %s\n", t.S, ax.Pos)
	}
	return nil
}

func exprMentions(e *Expr, name string) bool {
	if e == nil {
		return false
	}
	if (e.Op == "call" || e.Op == "var") && e.Name == name {
		return true
	}
	for _, a := range e.Args {
		if exprMentions(a, name) {
			return true
		}
	}
	return false
}

// heapVar returns the name of a Heap-sorted variable bound by the outermost quantifier, or "".
func heapVar(e *Expr) string {
	if e.Op != "forall" {
		return ""
	}
	for _, b := range e.Bound {
		if b[1] == "Heap" {
			return b[0]
		}
	}
	return ""
}

// InstHeapAxioms instantiates the heap-schematic axioms for one heap term (solvers do poorly with
// quantifiers over array-valued variables, so the heap is never quantified).
func (g *Gen) InstHeapAxioms(env *Env, heap string) []string {
	var out []string
	for _, ax := range g.Spec.Axioms {
		hv := heapVar(ax.E)
		if hv == "" {
			continue
		}
		if env.lemmaLimit > 0 && ax.LemmaIdx >= env.lemmaLimit {
			continue // proving lemma number lemmaLimit: neither itself nor later lemmas may be used
		}
		if ax.DefOf != nil {
			gf := ax.DefOf
			var ps, as []string
			vars := map[string]TTerm{}
			for _, p := range gf.Params {
				srt := sortFromName(p[1])
				if p[0] == hv {
					vars[p[0]] = TTerm{S: heap, Sort: "Heap"}
					as = append(as, heap)
					continue
				}
				ps = append(ps, "(q_"+p[0]+" "+srt+")")
				as = append(as, "q_"+p[0])
				vars[p[0]] = TTerm{S: "q_" + p[0], Sort: srt}
			}
			ne := env.withVars(vars)
			ne.onHeap = nil
			ne.fuel = "q_ly"
			body := ne.Tr(gf.Body)
			app := "(" + gf.Name + " (LS q_ly) " + strings.Join(as, " ") + ")"
			app0 := "(" + gf.Name + " q_ly " + strings.Join(as, " ") + ")"
			out = append(out, fmt.Sprintf("(assert (forall ((q_ly Fuel) %s) (! (= %s %s) :pattern (%s)))) ; definition of %s at heap", strings.Join(ps, " "), app, body.S, app, gf.Name))
			out = append(out, fmt.Sprintf("(assert (forall ((q_ly Fuel) %s) (! (= %s %s) :pattern (%s)))) ; fuel synonym of %s", strings.Join(ps, " "), app, app0, app, gf.Name))
			continue
		}
		cp := *ax.E
		cp.Bound = nil
		for _, b := range ax.E.Bound {
			if b[0] != hv {
				cp.Bound = append(cp.Bound, b)
			}
		}
		ne := env.withVars(map[string]TTerm{hv: {S: heap, Sort: "Heap"}})
		ne.onHeap = nil
		ne.assume = true
		var t TTerm
		if len(cp.Bound) == 0 {
			t = ne.Tr(ax.E.Args[0])
		} else {
			t = ne.Tr(&cp)
		}
		out = append(out, "(assert "+t.S+") ; axiom "+ax.Pos+" at heap")
	}
	return out
}

func coerceNil(t TTerm, sort string) TTerm {
	switch sort {
	case "Val":
		return TTerm{S: "VNil", Sort: "Val"}
	case "Iface":
		return TTerm{S: "niliface", Sort: "Iface"}
	case "Int":
		return TTerm{S: "0", Sort: "Int"}
	case "Slice":
		return TTerm{S: "nilslice", Sort: "Slice"}
	}
	return t
}

// SynthesizeHeapGhostAxioms turns the defining equation of every recursive ghost function with a
// Heap parameter into a heap-schematic axiom (instantiated per heap term inside each function).
func (sp *Spec) SynthesizeHeapGhostAxioms() {
	for _, gf := range sp.Ghosts {
		if gf.Body == nil || !exprMentions(gf.Body, gf.Name) {
			continue
		}
		hasHeap := false
		for _, p := range gf.Params {
			if p[1] == "Heap" {
				hasHeap = true
			}
		}
		if !hasHeap {
			continue
		}
		var args []*Expr
		var bound [][2]string
		for _, p := range gf.Params {
			args = append(args, &Expr{Op: "var", Name: p[0]})
			bound = append(bound, [2]string{p[0], p[1]})
		}
		app := &Expr{Op: "call", Name: gf.Name, Args: args}
		sp.Axioms = append(sp.Axioms, &Clause{Kind: "axiom", Pos: gf.Pos, Text: "definition of " + gf.Name, DefOf: gf,
			E: &Expr{Op: "forall", Bound: bound, Trig: []*Expr{app}, Args: []*Expr{{Op: "==", Args: []*Expr{app, gf.Body}}}}})
	}
}

// LemmaGens: one synthetic "function" per `lemma[tags] n: forall ... :: body` clause.  The lemma is proved by
// induction on the integer variable named by the label: the goal is the body for arbitrary constants, the
// hypothesis is the quantified lemma restricted to 0 <= n' < n (so a non-positive n is a base case proved
// outright).  Recursive ghost functions unfold through their fuel-indexed definitions, exactly as in function proofs.
func (g *Gen) LemmaGens(prop string) []*FuncGen {
	var out []*FuncGen
	for i, lm := range g.Spec.Lemmas {
		if lm.E.Op != "forall" || lm.Label == "" {
			continue
		}
		if prop != "" {
			has := false
			for _, t := range lm.Tags {
				if t == prop {
					has = true
				}
			}
			if !has {
				continue
			}
		}
		name := fmt.Sprintf("lemma.%d", lm.LemmaIdx)
		_ = i
		fg := newBareFuncGen(g, repoModule+"/internal/evaluator."+name)
		fg.segIdx = -1
		fg.emit("; ===== %s (%s): %s", name, lm.Pos, lm.Text)
		fg.emit("; @provinglemma %d", lm.LemmaIdx)
		var lerr error
		env := &Env{g: g, vars: map[string]TTerm{}, err: &lerr, wm0: "0",
			famOf:  func(f string) string { return f + "!0" },
			famOld: func(f string) string { return f + "!0" }}
		consts := map[string]TTerm{}
		ind := ""
		heap := ""
		for _, b := range lm.E.Bound {
			srt := sortFromName(b[1])
			c := "c_" + b[0]
			fg.emit("(declare-const %s %s)", c, srt)
			consts[b[0]] = TTerm{S: c, Sort: srt}
			if b[0] == lm.Label && srt == "Int" {
				ind = c
			}
			if srt == "Heap" {
				heap = c
			}
		}
		if ind == "" {
			continue
		}
		if heap != "" {
			ienv := *env
			ienv.assume = true
			ienv.lemmaLimit = lm.LemmaIdx
			for _, l := range g.InstHeapAxioms(&ienv, heap) {
				fg.emit("%s", l)
			}
		}
		// induction hypothesis: the lemma for smaller non-negative values of the induction variable (heap fixed)
		henv := *env
		henv.assume = true
		cp := *lm.E
		cp.Bound = nil
		hv := map[string]TTerm{}
		for _, b := range lm.E.Bound {
			if sortFromName(b[1]) == "Heap" {
				hv[b[0]] = consts[b[0]]
				continue
			}
			cp.Bound = append(cp.Bound, b)
		}
		guard := &Expr{Op: "&&", Args: []*Expr{
			{Op: "<=", Args: []*Expr{{Op: "int", Name: "0"}, {Op: "var", Name: lm.Label}}},
			{Op: "<", Args: []*Expr{{Op: "var", Name: lm.Label}, {Op: "var", Name: "ind!const"}}}}}
		cp.Args = []*Expr{{Op: "==>", Args: []*Expr{guard, lm.E.Args[0]}}}
		hv["ind!const"] = TTerm{S: ind, Sort: "Int"}
		ih := henv.withVars(hv).Tr(&cp)
		fg.emit("(assert %s) ; induction hypothesis", ih.S)
		goal := env.withVars(consts).Tr(lm.E.Args[0])
		if lerr != nil {
			fg.emit("; translation failed: %v", lerr)
			fg.undecided = append(fg.undecided, Undecided{Func: fg.key, Pos: lm.Pos, Text: lm.Text, Reason: lerr.Error(), Tags: lm.Tags})
			out = append(out, fg)
			continue
		}
		fg.obls = append(fg.obls, &Obligation{Name: shortKey(fg.key) + "/induction", Kind: "lemma", Func: fg.key, Tags: lm.Tags, Guard: "true", Goal: goal.S,
			Expect: "unsat", Block: -2, Via: -1, Pos: lm.Pos, Text: "lemma, by induction on " + lm.Label + ": " + lm.Text})
		out = append(out, fg)
	}
	return out
}

var missingTypes = map[string]bool{}

// noteMissingType: a contract names a type that /repo does not declare; isType(x, T) is then false for every x
// (reported once on stderr so that a stale contract does not go unnoticed)
func (g *Gen) noteMissingType(name string) {
	if !missingTypes[name] {
		missingTypes[name] = true
		fmt.Fprintf(os.Stderr, "NOTE contracts name the type %s, which /repo does not declare: isType(_, %q) is false\n", name, name)
	}
}

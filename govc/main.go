package main

import (
	_ "embed"
	"encoding/json"
	"flag"
	"fmt"
	"os"
	"path/filepath"
	"runtime"
	"sort"
	"strings"
	"time"

	"golang.org/x/tools/go/ssa"
)

//go:embed prelude.smt2
var preludeText string

var extraPrelude = ""

func fatal(format string, a ...interface{}) {
	fmt.Fprintf(os.Stderr, "govc: "+format+"\n", a...)
	os.Exit(2)
}

type Session struct {
	g   *Gen
	fgs map[string]*FuncGen
	errs map[string]error
}

func loadAll(repo, verif string) *Gen {
	g, err := LoadRepo(repo)
	if err != nil {
		fatal("%v", err)
	}
	g.Spec = NewSpec()
	// contracts inside the repository (guarded, comment-only files) and external ones under /verif/contracts
	var files []string
	filepath.Walk(repo, func(p string, info os.FileInfo, err error) error {
		if err == nil && !info.IsDir() && filepath.Base(p) == "contracts_verif.go" {
			files = append(files, p)
		}
		return nil
	})
	sort.Strings(files)
	for _, f := range files {
		rel, _ := filepath.Rel(repo, filepath.Dir(f))
		pkg := repoModule
		if rel != "." {
			pkg += "/" + filepath.ToSlash(rel)
		}
		if err := g.Spec.ReadSpecFile(f, pkg); err != nil {
			fatal("%v", err)
		}
	}
	ext, _ := filepath.Glob(filepath.Join(verif, "contracts", "*.gvc"))
	sort.Strings(ext)
	for _, f := range ext {
		if err := g.Spec.ReadSpecFile(f, ""); err != nil {
			fatal("%v", err)
		}
	}
	g.ComputeEffects()
	return g
}

func (g *Gen) sortedFuncs() []*ssa.Function {
	var keys []string
	for k := range g.Funcs {
		keys = append(keys, k)
	}
	sort.Strings(keys)
	var out []*ssa.Function
	for _, k := range keys {
		out = append(out, g.Funcs[k])
	}
	return out
}

func main() {
	if len(os.Args) < 2 {
		fatal("usage: govc <check|dump|list> ...")
	}
	switch os.Args[1] {
	case "dump":
		cmdDump(os.Args[2:])
	case "list":
		cmdList(os.Args[2:])
	case "check":
		cmdCheck(os.Args[2:])
	case "replay":
		cmdReplay(os.Args[2:])
	default:
		fatal("unknown command %s", os.Args[1])
	}
}

func cmdDump(args []string) {
	fs := flag.NewFlagSet("dump", flag.ExitOnError)
	repo := fs.String("repo", "/repo", "")
	verif := fs.String("verif", "/verif", "")
	fs.Parse(args)
	g := loadAll(*repo, *verif)
	var fgs []*FuncGen
	for _, name := range fs.Args() {
		found := false
		for _, f := range g.sortedFuncs() {
			if shortKey(FuncKey(f)) == name || FuncKey(f) == name {
				fg, err := g.GenFunc(f)
				if err != nil {
					fatal("%s: %v", name, err)
				}
				fgs = append(fgs, fg)
				found = true
			}
		}
		if !found {
			fatal("no function %s", name)
		}
	}
	pre, err := g.Preamble()
	if err != nil {
		fatal("%v", err)
	}
	var all strings.Builder
	for _, fg := range fgs {
		all.WriteString(fg.Script(-1))
		for _, o := range fg.obls {
			all.WriteString(o.Goal)
		}
	}
	fmt.Print(pre.For(all.String()))
	for _, fg := range fgs {
		fmt.Print(fg.Script(-1))
		for _, o := range fg.obls {
			fmt.Printf("; --- %s [%s] %s %s\n", o.Name, strings.Join(o.Tags, ","), o.Pos, o.Text)
			fmt.Print(oblScript(o, true))
		}
		for _, u := range fg.unsupported {
			fmt.Printf("; UNSUPPORTED: %s\n", u)
		}
	}
}

func cmdList(args []string) {
	fs := flag.NewFlagSet("list", flag.ExitOnError)
	repo := fs.String("repo", "/repo", "")
	verif := fs.String("verif", "/verif", "")
	fs.Parse(args)
	g := loadAll(*repo, *verif)
	for _, f := range g.sortedFuncs() {
		fg, err := g.GenFunc(f)
		if err != nil {
			fmt.Printf("%s: ERROR %v\n", shortKey(FuncKey(f)), err)
			continue
		}
		fmt.Printf("%s: %d obligations, %d unsupported\n", shortKey(fg.key), len(fg.obls), len(fg.unsupported))
		for _, u := range fg.unsupported {
			fmt.Printf("    unsupported: %s\n", u)
		}
	}
}

// ---------------------------------------------------------------------------

type Evidence struct {
	PropertyID  string                 `json:"property_id"`
	Tier        string                 `json:"tier"`
	Seed        int                    `json:"seed"`
	Level       string                 `json:"level"`
	Coverage    map[string]interface{} `json:"coverage"`
	Assumptions []string               `json:"assumptions"`
	WallS       float64                `json:"wall_s"`
	Violations  int                    `json:"violations"`
}

func cmdCheck(args []string) {
	fs := flag.NewFlagSet("check", flag.ExitOnError)
	repo := fs.String("repo", "/repo", "")
	verif := fs.String("verif", "/verif", "")
	prop := fs.String("prop", "", "property id")
	tier := fs.String("tier", "quick", "")
	only := fs.String("func", "", "restrict to one function (debugging)")
	verbose := fs.Bool("v", false, "")
	fs.Parse(args)
	start := time.Now()
	g := loadAll(*repo, *verif)
	timeout := 10000
	if *tier == "thorough" {
		timeout = 60000
	}
	var fgs []*FuncGen
	genErrs := map[string]error{}
	for _, f := range g.sortedFuncs() {
		if *only != "" && shortKey(FuncKey(f)) != *only {
			continue
		}
		fg, err := g.GenFunc(f)
		if err != nil {
			genErrs[FuncKey(f)] = err
			continue
		}
		fgs = append(fgs, fg)
	}
	pre, err := g.Preamble()
	if err != nil {
		fatal("%v", err)
	}
	filter := func(o *Obligation) bool {
		if *prop == "" {
			return true
		}
		for _, t := range o.Tags {
			if t == *prop {
				return true
			}
		}
		return false
	}
	results := Discharge(pre, fgs, filter, timeout, runtime.NumCPU(), *tier == "thorough")
	proved, failed, unknown := 0, 0, 0
	for _, r := range results {
		switch r.Status {
		case "proved":
			proved++
		case "failed":
			failed++
		default:
			unknown++
		}
		if *verbose || r.Status != "proved" {
			fmt.Printf("%-8s %-60s %s %.2fs %s\n", r.Status, r.O.Name, r.Solver, r.Seconds, r.O.Pos)
			if r.Status != "proved" {
				fmt.Printf("         %s\n", r.O.Text)
				if r.Model != "" {
					fmt.Printf("         model: %s\n", strings.ReplaceAll(r.Model, "\n", " "))
				}
			}
		}
	}
	for k, e := range genErrs {
		fmt.Printf("GENERROR %s: %v\n", shortKey(k), e)
	}
	fmt.Printf("obligations=%d proved=%d failed=%d unknown=%d wall=%.1fs\n", len(results), proved, failed, unknown, time.Since(start).Seconds())
	_ = json.Marshal
}

func cmdReplay(args []string) {}

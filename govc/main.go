package main

import (
	_ "embed"
	"encoding/json"
	"flag"
	"fmt"
	"os"
	"path/filepath"
	"runtime"
	"sort"
	"strings"
	"time"

	"golang.org/x/tools/go/ssa"
)

//go:embed prelude.smt2
var preludeText string

var extraPrelude = ""

func fatal(format string, a ...interface{}) {
	fmt.Fprintf(os.Stderr, "govc: "+format+"\n", a...)
	os.Exit(2)
}

type Session struct {
	g   *Gen
	fgs map[string]*FuncGen
	errs map[string]error
}

func loadAll(repo, verif string) *Gen {
	g, err := LoadRepo(repo)
	if err != nil {
		fatal("%v", err)
	}
	g.Spec = NewSpec()
	// contracts inside the repository (guarded, comment-only files) and external ones under /verif/contracts
	var files []string
	filepath.Walk(repo, func(p string, info os.FileInfo, err error) error {
		if err == nil && !info.IsDir() && filepath.Base(p) == "contracts_verif.go" {
			files = append(files, p)
		}
		return nil
	})
	sort.Strings(files)
	for _, f := range files {
		rel, _ := filepath.Rel(repo, filepath.Dir(f))
		pkg := repoModule
		if rel != "." {
			pkg += "/" + filepath.ToSlash(rel)
		}
		if err := g.Spec.ReadSpecFile(f, pkg); err != nil {
			fatal("%v", err)
		}
	}
	ext, _ := filepath.Glob(filepath.Join(verif, "contracts", "*.gvc"))
	sort.Strings(ext)
	for _, f := range ext {
		if err := g.Spec.ReadSpecFile(f, ""); err != nil {
			fatal("%v", err)
		}
	}
	g.Spec.SynthesizeHeapGhostAxioms()
	// lemmas are used like axioms by every function proof, and are themselves proved by induction (LemmaGens)
	g.Spec.Axioms = append(g.Spec.Axioms, g.Spec.Lemmas...)
	g.ComputeEffects()
	return g
}

func (g *Gen) sortedFuncs() []*ssa.Function {
	var keys []string
	for k := range g.Funcs {
		keys = append(keys, k)
	}
	sort.Strings(keys)
	var out []*ssa.Function
	for _, k := range keys {
		out = append(out, g.Funcs[k])
	}
	return out
}

func main() {
	if len(os.Args) < 2 {
		fatal("usage: govc <check|dump|list> ...")
	}
	switch os.Args[1] {
	case "dump":
		cmdDump(os.Args[2:])
	case "list":
		cmdList(os.Args[2:])
	case "check":
		cmdCheck(os.Args[2:])
	case "replay":
		cmdReplay(os.Args[2:])
	default:
		fatal("unknown command %s", os.Args[1])
	}
}

func cmdDump(args []string) {
	fs := flag.NewFlagSet("dump", flag.ExitOnError)
	repo := fs.String("repo", "/repo", "")
	verif := fs.String("verif", "/verif", "")
	fs.Parse(args)
	g := loadAll(*repo, *verif)
	var fgs []*FuncGen
	for _, name := range fs.Args() {
		found := false
		for _, f := range g.sortedFuncs() {
			if shortKey(FuncKey(f)) == name || FuncKey(f) == name {
				fg, err := g.GenFunc(f)
				if err != nil {
					fatal("%s: %v", name, err)
				}
				fgs = append(fgs, fg)
				found = true
			}
		}
		if !found {
			fatal("no function %s", name)
		}
	}
	pre, err := g.Preamble()
	if err != nil {
		fatal("%v", err)
	}
	var all strings.Builder
	for _, fg := range fgs {
		all.WriteString(fg.Script(-1))
		for _, o := range fg.obls {
			all.WriteString(o.Goal)
		}
	}
	fmt.Print(pre.For(all.String()))
	for _, fg := range fgs {
		fmt.Print(fg.Script(-1))
		for _, o := range fg.obls {
			fmt.Printf("; --- %s [%s] %s %s\n", o.Name, strings.Join(o.Tags, ","), o.Pos, o.Text)
			fmt.Print(oblScript(o, true))
		}
		for _, u := range fg.unsupported {
			fmt.Printf("; UNSUPPORTED: %s\n", u)
		}
	}
}

func cmdList(args []string) {
	fs := flag.NewFlagSet("list", flag.ExitOnError)
	repo := fs.String("repo", "/repo", "")
	verif := fs.String("verif", "/verif", "")
	fs.Parse(args)
	g := loadAll(*repo, *verif)
	for _, f := range g.sortedFuncs() {
		fg, err := g.GenFunc(f)
		if err != nil {
			fmt.Printf("%s: ERROR %v\n", shortKey(FuncKey(f)), err)
			continue
		}
		fmt.Printf("%s: %d obligations, %d unsupported\n", shortKey(fg.key), len(fg.obls), len(fg.unsupported))
		for _, u := range fg.unsupported {
			fmt.Printf("    unsupported: %s\n", u)
		}
	}
}

// ---------------------------------------------------------------------------

type Evidence struct {
	PropertyID  string                 `json:"property_id"`
	Tier        string                 `json:"tier"`
	Seed        int                    `json:"seed"`
	Level       string                 `json:"level"`
	Coverage    map[string]interface{} `json:"coverage"`
	Assumptions []string               `json:"assumptions"`
	WallS       float64                `json:"wall_s"`
	Violations  int                    `json:"violations"`
}

type KnownFinding struct {
	Property   string `json:"property"`
	Obligation string `json:"obligation"`
	What       string `json:"what"`
	Witness    string `json:"witness,omitempty"`
	Status     string `json:"status,omitempty"` // "open" (default) or "fixed: <commit>"
}

type KnownFile struct {
	Findings []KnownFinding `json:"findings"`
	Fixed    []string       `json:"fixed"`
}

func loadKnown(verif string) *KnownFile {
	k := &KnownFile{}
	b, err := os.ReadFile(filepath.Join(verif, "known_findings.json"))
	if err == nil {
		if err := json.Unmarshal(b, k); err != nil {
			fatal("known_findings.json: %v", err)
		}
	}
	return k
}

// propertyFuncs: which functions a property's obligations can live in (all functions for the sweeps).
// extendTags: the proof of an obligation of property P in function f assumes the postconditions of the repository
// functions f calls, so those postconditions have to be discharged under P as well - otherwise a change inside a
// callee that breaks its contract is reported only under the properties the callee happens to be tagged with
// (missed seed C20-agent6: toDecimal, tagged C05 C14 C18, is what `equal` compares numbers with).  The closure is
// taken over non-recursive callees with a contract (conversion and classification helpers, the builtins called
// from evaluate's cases); the members of the evaluator's recursive cycle carry their tags explicitly.
func (g *Gen) extendTags(prop string) {
	has := func(tags []string) bool {
		for _, t := range tags {
			if t == prop {
				return true
			}
		}
		return false
	}
	byKey := map[string]*ssa.Function{}
	for _, f := range g.sortedFuncs() {
		byKey[FuncKey(f)] = f
	}
	tagged := func(c *Contract) bool {
		if has(c.Tags) {
			return true
		}
		for _, cl := range append(append([]*Clause{}, c.Requires...), c.Ensures...) {
			if has(cl.Tags) {
				return true
			}
		}
		for _, l := range c.Loops {
			for _, cl := range l.Invariants {
				if has(cl.Tags) {
					return true
				}
			}
		}
		for _, sa := range c.Sites {
			if has(sa.C.Tags) {
				return true
			}
		}
		return false
	}
	var work []*ssa.Function
	seen := map[*ssa.Function]bool{}
	for k, c := range g.Spec.Contracts {
		// evaluate is not a source: its per-case clauses are wiring clauses over the graphs of the callees
		// (returns(...)/isEv), they do not use the callees' postconditions
		if f := byKey[k]; f != nil && !c.External && tagged(c) && shortKey(k) != "evaluator.evaluator.evaluate" {
			work = append(work, f)
			seen[f] = true
		}
	}
	sort.Slice(work, func(i, j int) bool { return FuncKey(work[i]) < FuncKey(work[j]) })
	add := func(cl *Clause) {
		if cl != nil && len(cl.Tags) > 0 && !has(cl.Tags) {
			cl.Tags = append(append([]string{}, cl.Tags...), prop)
		}
	}
	for len(work) > 0 {
		f := work[0]
		work = work[1:]
		for _, b := range f.Blocks {
			for _, in := range b.Instrs {
				call, ok := in.(*ssa.Call)
				if !ok {
					continue
				}
				sc := call.Common().StaticCallee()
				if sc == nil || seen[sc] || g.Recursive()[sc] {
					continue
				}
				c := g.Spec.Contracts[FuncKey(sc)]
				if c == nil || c.External || byKey[FuncKey(sc)] == nil {
					continue
				}
				seen[sc] = true
				work = append(work, sc)
				if !has(c.Tags) {
					c.Tags = append(append([]string{}, c.Tags...), prop)
				}
				for _, cl := range c.Ensures {
					add(cl)
				}
				for _, l := range c.Loops {
					for _, cl := range l.Invariants {
						add(cl)
					}
					add(l.Decreases)
					add(l.Bound)
				}
				for _, sa := range c.Sites {
					add(sa.C)
				}
				g.supportFuncs = append(g.supportFuncs, shortKey(FuncKey(sc)))
			}
		}
	}
}

func wantsFunc(g *Gen, f *ssa.Function, prop string) bool {
	switch prop {
	case "":
		return true
	case "C03", "C06", "C07", "C09", "C11", "C15", "C18":
		return g.ReachableFromAPI()[f]
	}
	has := func(tags []string) bool {
		for _, t := range tags {
			if t == prop {
				return true
			}
		}
		return false
	}
	// a function (with or without a contract of its own) that calls a function whose precondition belongs to the
	// property carries an obligation of the property: a new helper cannot take a call out of the check's sight
	if g.ReachableFromAPI()[f] {
		for _, b := range f.Blocks {
			for _, in := range b.Instrs {
				if call, ok := in.(*ssa.Call); ok {
					if sc := call.Common().StaticCallee(); sc != nil {
						if cc := g.Spec.Contracts[FuncKey(sc)]; cc != nil {
							for _, r := range cc.Requires {
								if has(r.Tags) {
									return true
								}
							}
						}
					}
				}
			}
		}
	}
	c := g.Spec.Contracts[FuncKey(f)]
	if c == nil {
		return false
	}
	if has(c.Tags) {
		return true
	}
	for _, cl := range append(append([]*Clause{}, c.Requires...), c.Ensures...) {
		if has(cl.Tags) {
			return true
		}
	}
	for _, l := range c.Loops {
		for _, cl := range l.Invariants {
			if has(cl.Tags) {
				return true
			}
		}
	}
	for _, sa := range c.Sites {
		if has(sa.C.Tags) {
			return true
		}
	}
	return false
}

func cmdCheck(args []string) {
	fs := flag.NewFlagSet("check", flag.ExitOnError)
	repo := fs.String("repo", "/repo", "")
	verif := fs.String("verif", "/verif", "")
	prop := fs.String("prop", "", "property id")
	tier := fs.String("tier", "quick", "")
	only := fs.String("func", "", "restrict to one function (debugging)")
	verbose := fs.Bool("v", false, "")
	noEvidence := fs.Bool("no-evidence", false, "")
	tmo := fs.Int("timeout", 0, "per-query solver timeout in ms (default 10000 quick, 60000 thorough)")
	fs.Parse(args)
	start := time.Now()
	seed := 0
	fmt.Sscan(os.Getenv("VERIF_SEED"), &seed)
	g := loadAll(*repo, *verif)
	if *prop != "" {
		g.extendTags(*prop)
	}
	timeout := 10000
	coverReturns = *tier == "thorough"
	heightAssumptions = *prop == "C09" || *prop == ""
	if *tier == "thorough" {
		timeout = 20000
	}
	if *tmo > 0 {
		timeout = *tmo
	}
	var fgs []*FuncGen
	genErrs := map[string]error{}
	for _, f := range g.sortedFuncs() {
		if *only != "" && shortKey(FuncKey(f)) != *only {
			continue
		}
		if !wantsFunc(g, f, *prop) {
			continue
		}
		fg, err := g.GenFunc(f)
		if err != nil {
			genErrs[FuncKey(f)] = err
			continue
		}
		fgs = append(fgs, fg)
	}
	if *only == "" || strings.HasPrefix(*only, "lemma") {
		fgs = append(fgs, g.LemmaGens(*prop)...)
	}
	pre, err := g.Preamble()
	if err != nil {
		fatal("%v", err)
	}
	filter := func(o *Obligation) bool {
		if *prop == "" {
			return true
		}
		for _, t := range o.Tags {
			if t == *prop {
				return true
			}
		}
		return false
	}
	// recursion depth (C03: no stack exhaustion; C09): every function on a recursive cycle reachable from
	// the API needs a depth bound that does not grow with the input; none of them has one
	for _, fg := range fgs {
		if g.ReachableFromAPI()[fg.fn] && g.Recursive()[fg.fn] && g.sccRep(fg.fn) == fg.fn {
			depth := ""
			if fg.c != nil {
				for _, n := range fg.c.Notes {
					if strings.HasPrefix(n, "depth-bounded:") {
						depth = n
					}
				}
			}
			goal := "false"
			if depth != "" {
				goal = "true"
			}
			fg.obls = append(fg.obls, &Obligation{Name: shortKey(fg.key) + "/depth", Kind: "depth", Func: fg.key, Tags: []string{"C03", "C09"}, Guard: "true", Goal: goal,
				Expect: "unsat", Block: -2, Via: -1, Pos: g.pos(fg.fn.Pos()), Text: "recursion depth of the cycle through " + shortKey(fg.key) + " is bounded independently of the input (or guarded by a limit)"})
		}
	}
	// vacuity guards: the assumptions of every function with selected obligations must be satisfiable
	for _, fg := range fgs {
		n := 0
		for _, o := range fg.obls {
			if filter(o) {
				n++
			}
		}
		if n > 0 {
			for _, o := range fg.obls {
				if o.Kind == "cover" && len(o.Tags) == 0 {
					o.Tags = []string{*prop}
				}
			}
			fg.obls = append(fg.obls, &Obligation{Name: shortKey(fg.key) + "/cover.entry", Kind: "cover", Func: fg.key, Tags: []string{*prop}, Guard: "true", Goal: "false", Expect: "sat", Block: -2, Via: -1, Text: "the assumptions at function entry (prelude axioms, ghost axioms, parameter invariants, requires clauses) are satisfiable (vacuity guard; refuted by any solver = engine fault)"})
		}
	}
	results := Discharge(pre, fgs, filter, timeout, runtime.NumCPU(), *tier == "thorough")
	known := loadKnown(*verif)
	isKnown := func(name string) *KnownFinding {
		for i := range known.Findings {
			k := &known.Findings[i]
			if k.Obligation == name && (k.Property == *prop || *prop == "") {
				return k
			}
		}
		return nil
	}
	fgByKey := map[string]*FuncGen{}
	for _, fg := range fgs {
		fgByKey[fg.key] = fg
	}
	replayed := map[string]*ReplayVerdict{}
	unreachable := map[string][]string{}
	proved, failed, unknown := 0, 0, 0
	violations := 0
	var lines []string
	byBackend := map[string]int{}
	solverTime := 0.0
	funcsUnder := map[string]bool{}
	var samples []interface{}
	var slow []string
	var knownHit []string
	usedExt := map[string]bool{}
	for _, r := range results {
		funcsUnder[shortKey(r.O.Func)] = true
		solverTime += r.Seconds
		switch r.Status {
		case "proved":
			proved++
			byBackend[r.Solver]++
			if len(samples) < 8 && r.O.Kind != "cover" {
				samples = append(samples, map[string]string{"obligation": r.O.Name, "kind": r.O.Kind, "at": r.O.Pos, "clause": r.O.Text, "backend": r.Solver})
			}
		case "failed":
			failed++
		default:
			unknown++
		}
		if r.Seconds > 5 {
			slow = append(slow, fmt.Sprintf("%s %.1fs", r.O.Name, r.Seconds))
		}
		if *verbose || r.Status != "proved" {
			fmt.Printf("%-8s %-60s %s %.2fs %s\n", r.Status, r.O.Name, r.Solver, r.Seconds, r.O.Pos)
			if r.Status != "proved" {
				fmt.Printf("         %s\n", r.O.Text)
				if r.Model != "" {
					fmt.Printf("         model: %s\n", strings.ReplaceAll(r.Model, "\n", " "))
				}
			}
		}
		if r.Status == "proved" {
			continue
		}
		if r.O.Kind == "cover" && strings.Contains(r.O.Name, "/cover.ret") {
			// an unreachable return is reported, and is a fault only when no return of the function is reachable
			unreachable[r.O.Func] = append(unreachable[r.O.Func], r.O.Name)
			continue
		}
		if r.O.Kind == "cover" {
			fmt.Printf("ENGINE-FAULT vacuous contract: %s\n", r.O.Name)
			violations++
			continue
		}
		if k := isKnown(r.O.Name); k != nil {
			line := fmt.Sprintf("KNOWN-FINDING: property=%s %s %s", k.Property, r.O.Name, k.What)
			lines = append(lines, line)
			knownHit = append(knownHit, r.O.Name)
			continue
		}
		violations++
		id := *prop
		if id == "" {
			id = firstOr(r.O.Tags, "none")
		}
		// try to exhibit a failing input on the real code
		if fgOf := fgByKey[r.O.Func]; fgOf != nil && fgOf.fn != nil && os.Getenv("GOVC_NO_REPLAY") == "" {
			key := r.O.Func
			if _, done := replayed[key]; !done {
				replayed[key] = g.Replay(*repo, fgOf, r, seed)
			}
			if rv := replayed[key]; rv != nil {
				r.confirmed = rv.Confirmed
				r.replayInfo = rv.Info
			}
		}
		rp := writeReplay(*verif, id, r)
		suffix := ""
		if !r.confirmed {
			suffix = " no-failing-input-found"
		}
		lines = append(lines, fmt.Sprintf("VIOLATION property=%s replay=%s obligation=%s%s", id, rp, r.O.Name, suffix))
	}
	var unreachableAll []string
	for _, fg := range fgs {
		if u := unreachable[fg.key]; len(u) > 0 {
			unreachableAll = append(unreachableAll, u...)
			if len(u) == len(fg.retBlocks) {
				fmt.Printf("ENGINE-FAULT no return of %s is reachable under the assumptions made (vacuous proofs)\n", shortKey(fg.key))
				violations++
			}
		}
	}
	sort.Strings(unreachableAll)
	for _, u := range unreachableAll {
		fmt.Printf("NOTE unreachable return (postconditions there hold vacuously): %s\n", u)
	}
	var undecided []string
	seenUndecided := map[string]bool{}
	for _, fg := range fgs {
		for _, u := range fg.undecided {
			rel := *prop == ""
			for _, t := range u.Tags {
				if t == *prop {
					rel = true
				}
			}
			if rel {
				line := fmt.Sprintf("UNDECIDED property=%s function=%s clause=%s (%s): %s", *prop, shortKey(u.Func), u.Pos, u.Text, u.Reason)
				if !seenUndecided[line] {
					seenUndecided[line] = true
					undecided = append(undecided, line)
					fmt.Println(line)
				}
			}
		}
	}
	// contracts on functions that /repo does not declare (any more): nothing can be proved about them
	{
		var ks []string
		for k := range g.Spec.Contracts {
			ks = append(ks, k)
		}
		sort.Strings(ks)
		for _, k := range ks {
			c := g.Spec.Contracts[k]
			if c.Trusted || c.External || !strings.HasPrefix(k, repoModule) || g.Funcs[k] != nil {
				continue
			}
			rel := *prop == ""
			for _, t := range c.Tags {
				if t == *prop {
					rel = true
				}
			}
			if rel && (*only == "" || strings.Contains(k, *only)) {
				line := fmt.Sprintf("UNDECIDED property=%s function=%s clause=%s: the contract names a function that /repo does not declare", *prop, shortKey(k), c.Pos)
				undecided = append(undecided, line)
				fmt.Println(line)
				violations++
				r := &Result{O: &Obligation{Name: shortKey(k) + "/lost.function", Kind: "lost", Func: k, Pos: c.Pos, Text: "the contract names a function that /repo does not declare"}, Status: "failed", Solver: "none"}
				rp := writeReplay(*verif, *prop, r)
				lines = append(lines, fmt.Sprintf("VIOLATION property=%s replay=%s obligation=%s no-failing-input-found", *prop, rp, r.O.Name))
			}
		}
	}
	var genErrNames []string
	for k, e := range genErrs {
		fmt.Printf("GENERROR %s: %v\n", shortKey(k), e)
		genErrNames = append(genErrNames, shortKey(k))
	}
	sort.Strings(genErrNames)
	for _, l := range lines {
		fmt.Println(l)
	}
	for _, fg := range fgs {
		for k := range fg.callsExternalUnmodelled {
			usedExt[k] = true
		}
	}
	fmt.Printf("property=%s tier=%s obligations=%d proved=%d failed=%d unknown=%d known=%d wall=%.1fs\n", *prop, *tier, len(results), proved, failed, unknown, len(knownHit), time.Since(start).Seconds())
	if *prop != "" && !*noEvidence {
		var fl []string
		for f := range funcsUnder {
			fl = append(fl, f)
		}
		sort.Strings(fl)
		var trusted []string
		for k, c := range g.Spec.Contracts {
			if c.Trusted {
				trusted = append(trusted, k)
			}
		}
		sort.Strings(trusted)
		var unm []string
		for k := range usedExt {
			unm = append(unm, k)
		}
		sort.Strings(unm)
		ev := Evidence{PropertyID: *prop, Tier: *tier, Seed: seed, Level: "proof", WallS: time.Since(start).Seconds(), Violations: violations,
			Coverage: map[string]interface{}{
				"obligations": len(results) - len(knownHit) - len(unreachableAll), "discharged": proved, "obligations_including_known_findings": len(results) - len(unreachableAll), "reachability_covers_not_counted": len(unreachableAll),
				"checker_cmd":  fmt.Sprintf("bin/check %s --tier %s", *prop, *tier),
				"trusted_base": []string{"go/types + go/ssa (x/tools v0.50.0) as the meaning of the Go source", "govc translation of the SSA subset G0 (DESIGN.md 2.3)", "z3 5.1.0 (z3-new), z3 4.8.12, cvc5 1.0.3", "platform linux/amd64: int is 64 bits"},
				"samples":      samples, "functions_under_contract": fl, "by_backend": byBackend, "solver_time_s": solverTime, "slowest": slow,
				"known_findings": knownHit, "undecided_functions": genErrNames, "undecided_clauses": undecided, "not_discharged": failed + unknown - len(knownHit),
				"unmodelled_external_calls_havoced": unm,
				"assumed_clauses":                   assumedScan(g, fgs),
				"returns_found_unreachable_by_cover": unreachableAll,
			},
			Assumptions: append([]string{
				"external contracts marked trusted in /verif/contracts/ext.gvc are assumed, not proved: " + strings.Join(trusted, ", "),
				"sizes: every string is at most 2^40 bytes and every slice at most 2^44 elements (gs.wf / slice.wf); make() is required to stay below 2^44 elements; executions with larger values are not covered",
				"integers are mathematical integers with explicit 64-bit wrap on + - * and conversions; floats are uninterpreted except for the listed facts",
				"append on a slice owned by the call is modelled as producing a new backing array (aliasing between an owned slice and its pre-append value is not modelled)",
				"objects that existed at function entry are not written by loops/callees: justified by the frame obligations of property C06, which are discharged separately",
			}, propertyAssumptions(*prop)...),
		}
		if len(results) == 0 {
			fmt.Printf("ENGINE-FAULT no obligations generated for %s\n", *prop)
			violations++
		}
		os.MkdirAll(filepath.Join(*verif, "evidence"), 0o755)
		b, _ := json.MarshalIndent(ev, "", " ")
		os.WriteFile(filepath.Join(*verif, "evidence", *prop+".json"), b, 0o644)
	}
	if len(genErrs) > 0 {
		os.Exit(2)
	}
	if violations > 0 {
		os.Exit(1)
	}
}

func firstOr(a []string, d string) string {
	if len(a) > 0 {
		return a[0]
	}
	return d
}

func propertyAssumptions(p string) []string {
	common := map[string][]string{
		"C01": {"isEv / ret_f are the graphs of the real functions (assumed for the actual arguments and results of each call only)", "known findings: binding powers of projection right-hand sides (see known_findings.json)"},
		"C09": {"recursion over the AST terminates because the AST is a finite tree: where a node is inspected, the nodes stored in its fields are assumed to lie below it under a height function (the parser builds nodes from already built children and nothing writes to a node afterwards: C06/C07 frame obligations)", "termination of a loop or recursion is proved given that every callee returns; callees outside the repository are assumed to return", "the recursion depth findings are listed in known_findings.json"},
		"C04": {"the ghost token stream is what the lexer yields (defines clauses of advance/advance2/setCurrent)"},
		"C07": {"reduction lemma A1 (DESIGN.md): an activation that writes only memory it allocated itself cannot race"},
		"C11": {"the expression text handed to Search/Compile/MustCompile is a whole string (requires clause of the API functions: an assumption, they have no caller in the repository)", "facts about Go's UTF-8 segmentation in prelude.smt2 (an ASCII byte is never inside a longer unit; decode/rune-table axioms)", "keys read back from a map[string]T are aligned because keys are checked where they are inserted"},
		"C13": {"slices.SortFunc calls its comparator with two elements of the slice, and with every element at least once when there are two or more (callback clause, trusted)", "sort.Stable is stable"},
		"C15": {"which invariant makes a loop over a map order-insensitive is a reviewed choice; external functions with contracts are functions of their arguments"},
		"C18": {"c18.ih (every value received as parameter, callee result or read from an array/object is a finite JSON value) is the induction hypothesis; the induction over the evaluation is a meta-argument", "decimal128 parses or unmarshals JSON number text to a finite value or fails; sign and rounding operations keep finiteness", "acyclicity of results follows from the frame obligations (no write into memory the call did not allocate)"},
	}
	return common[p]
}

func writeReplay(verif, prop string, r *Result) string {
	dir := filepath.Join(verif, "replays", prop)
	os.MkdirAll(dir, 0o755)
	name := strings.NewReplacer("/", "_", "#", "_", "@", "_").Replace(r.O.Name) + ".json"
	p := filepath.Join(dir, name)
	doc := map[string]interface{}{
		"property": prop, "obligation": r.O.Name, "kind": r.O.Kind, "function": r.O.Func, "at": r.O.Pos, "clause": r.O.Text,
		"status": r.Status, "solver": r.Solver, "model": r.Model, "solver_output": r.Output,
		"confirmed_on_real_code": r.confirmed, "replay": r.replayInfo,
	}
	b, _ := json.MarshalIndent(doc, "", " ")
	os.WriteFile(p, b, 0o644)
	return p
}

// cmdReplay re-runs the replay recorded in a replay file: it reloads /repo, regenerates the function
// and tries again to exhibit a failing input on the real code.
func cmdReplay(args []string) {
	fs := flag.NewFlagSet("replay", flag.ExitOnError)
	repo := fs.String("repo", "/repo", "")
	verif := fs.String("verif", "/verif", "")
	fs.Parse(args)
	if fs.NArg() != 1 {
		fatal("usage: govc replay <replay-file>")
	}
	b, err := os.ReadFile(fs.Arg(0))
	if err != nil {
		fatal("%v", err)
	}
	var doc map[string]interface{}
	if err := json.Unmarshal(b, &doc); err != nil {
		fatal("%v", err)
	}
	fmt.Printf("obligation: %v\nclause: %v\nrecorded status: %v (solver %v)\n", doc["obligation"], doc["clause"], doc["status"], doc["solver"])
	g := loadAll(*repo, *verif)
	fn := g.Funcs[fmt.Sprint(doc["function"])]
	if fn == nil {
		fatal("function %v no longer exists", doc["function"])
	}
	fg, err := g.GenFunc(fn)
	if err != nil {
		fatal("%v", err)
	}
	rv := g.Replay(*repo, fg, &Result{Model: fmt.Sprint(doc["model"])}, 0)
	out, _ := json.MarshalIndent(rv.Info, "", " ")
	fmt.Printf("replay on the current tree: confirmed=%v\n%s\n", rv.Confirmed, out)
	if rv.Confirmed {
		os.Exit(1)
	}
}

// ReachableFromAPI: functions reachable from Search, Compile, MustCompile, Expression.Search through
// static calls and closures, plus every Error/Is/Unwrap method of the repository's error types
// (errors returned to the caller can be formatted and matched) and the sort.Interface methods handed
// to package sort.  String/Walk methods of AST nodes are debugging aids outside the API paths.
func (g *Gen) ReachableFromAPI() map[*ssa.Function]bool {
	if g.reach != nil {
		return g.reach
	}
	g.reach = map[*ssa.Function]bool{}
	var visit func(f *ssa.Function)
	visit = func(f *ssa.Function) {
		if f == nil || g.reach[f] || !g.IsRepoFunc(f) {
			return
		}
		g.reach[f] = true
		for _, b := range f.Blocks {
			for _, in := range b.Instrs {
				switch v := in.(type) {
				case *ssa.Call:
					visit(v.Common().StaticCallee())
				case *ssa.MakeClosure:
					if fn, ok := v.Fn.(*ssa.Function); ok {
						visit(fn)
					}
				}
			}
		}
		for _, an := range f.AnonFuncs {
			visit(an)
		}
	}
	for k, f := range g.Funcs {
		switch shortKey(k) {
		case "Search", "Compile", "MustCompile", "Expression.Search":
			visit(f)
		}
		if f.Signature.Recv() != nil {
			switch f.Name() {
			case "Error", "Is", "Unwrap", "Len", "Less", "Swap":
				visit(f)
			}
		}
	}
	return g.reach
}

// Recursive: functions that lie on a cycle of the static call graph of the repository.
func (g *Gen) Recursive() map[*ssa.Function]bool {
	if g.recursive != nil {
		return g.recursive
	}
	g.recursive = map[*ssa.Function]bool{}
	callees := func(f *ssa.Function) []*ssa.Function {
		var out []*ssa.Function
		for _, b := range f.Blocks {
			for _, in := range b.Instrs {
				if c, ok := in.(*ssa.Call); ok {
					if sc := c.Common().StaticCallee(); sc != nil && g.IsRepoFunc(sc) {
						out = append(out, sc)
					}
				}
			}
		}
		return out
	}
	for _, f := range g.Funcs {
		// f is recursive if f is reachable from one of its callees
		seen := map[*ssa.Function]bool{}
		stack := callees(f)
		for len(stack) > 0 {
			x := stack[len(stack)-1]
			stack = stack[:len(stack)-1]
			if x == f {
				g.recursive[f] = true
				break
			}
			if seen[x] {
				continue
			}
			seen[x] = true
			stack = append(stack, callees(x)...)
		}
	}
	return g.recursive
}

// sccRep: the member with the smallest key of f's strongly connected component in the static call graph.
func (g *Gen) sccRep(f *ssa.Function) *ssa.Function {
	reach := func(from *ssa.Function) map[*ssa.Function]bool {
		seen := map[*ssa.Function]bool{}
		stack := []*ssa.Function{from}
		for len(stack) > 0 {
			x := stack[len(stack)-1]
			stack = stack[:len(stack)-1]
			for _, b := range x.Blocks {
				for _, in := range b.Instrs {
					if c, ok := in.(*ssa.Call); ok {
						if sc := c.Common().StaticCallee(); sc != nil && g.IsRepoFunc(sc) && !seen[sc] {
							seen[sc] = true
							stack = append(stack, sc)
						}
					}
				}
			}
		}
		return seen
	}
	fwd := reach(f)
	rep := f
	pref := func(h *ssa.Function) bool { return h.Name() == "evaluate" || h.Name() == "expression" }
	for h := range fwd {
		if h != f && reach(h)[f] {
			if pref(h) && !pref(rep) || (pref(h) == pref(rep) && FuncKey(h) < FuncKey(rep)) {
				rep = h
			}
		}
	}
	return rep
}

// assumedScan: mechanical list of everything in the contracts that is assumed rather than proved (besides the
// trusted external contracts, which are listed separately): definitional postconditions, site assumptions,
// axioms (lemmas are proved), requires clauses of the API entry points, and what the generator assumed itself.
func assumedScan(g *Gen, fgs []*FuncGen) []string {
	var out []string
	var keys []string
	for k := range g.Spec.Contracts {
		keys = append(keys, k)
	}
	sort.Strings(keys)
	api := map[string]bool{"Search": true, "Compile": true, "MustCompile": true, "Expression.Search": true}
	for _, k := range keys {
		c := g.Spec.Contracts[k]
		if c.Trusted {
			continue
		}
		for _, en := range c.Ensures {
			if en.Defines {
				out = append(out, "defines "+shortKey(k)+": "+en.Text)
			}
		}
		for _, sa := range c.Sites {
			if sa.Assume {
				out = append(out, "assume at "+sa.Callee+" in "+shortKey(k)+": "+sa.C.Text)
			}
		}
		if api[shortKey(k)] {
			for _, r := range c.Requires {
				out = append(out, "requires of API function "+shortKey(k)+" (no caller in the repository): "+r.Text)
			}
		}
	}
	n := 0
	for _, ax := range g.Spec.Axioms {
		if ax.LemmaIdx == 0 && ax.DefOf == nil {
			n++
			t := ax.Text
			if len(t) > 160 {
				t = t[:160] + "..."
			}
			out = append(out, "axiom "+ax.Pos+": "+t)
		}
	}
	seen := map[string]bool{}
	for _, fg := range fgs {
		for _, a := range fg.assumed {
			if !seen[a] {
				seen[a] = true
				out = append(out, "generator: "+a)
			}
		}
	}
	return out
}

package main

// Contract files and the clause expression language.
//
// Contracts live in comment-only Go files (build tag verif) inside /repo and in
// /verif/contracts/*.gvc for functions outside /repo.  Every line of interest
// starts with "//@".  See DESIGN.md section 2.2.

import (
	"bufio"
	"fmt"
	"os"
	"path/filepath"
	"strconv"
	"strings"
	"unicode"
)

type Expr struct {
	Op    string // var int str bool nil call index slice field old forall exists and the operators
	Name  string
	Args  []*Expr
	Bound [][2]string // for quantifiers: (name, sort)
	Trig  []*Expr     // optional explicit triggers
	Pos   string
}

func (e *Expr) String() string {
	switch e.Op {
	case "var", "int", "bool":
		return e.Name
	case "str":
		return strconv.Quote(e.Name)
	case "nil":
		return "nil"
	case "call":
		var a []string
		for _, x := range e.Args {
			a = append(a, x.String())
		}
		return e.Name + "(" + strings.Join(a, ", ") + ")"
	case "index":
		return e.Args[0].String() + "[" + e.Args[1].String() + "]"
	case "slice":
		return e.Args[0].String() + "[" + e.Args[1].String() + ":" + e.Args[2].String() + "]"
	case "field":
		return e.Args[0].String() + "." + e.Name
	case "old":
		return "old(" + e.Args[0].String() + ")"
	case "forall", "exists":
		var b []string
		for _, x := range e.Bound {
			b = append(b, x[0]+" "+x[1])
		}
		return "(" + e.Op + " " + strings.Join(b, ", ") + " :: " + e.Args[0].String() + ")"
	case "!", "neg":
		op := e.Op
		if op == "neg" {
			op = "-"
		}
		return op + e.Args[0].String()
	}
	if len(e.Args) == 2 {
		return "(" + e.Args[0].String() + " " + e.Op + " " + e.Args[1].String() + ")"
	}
	return e.Op
}

type Clause struct {
	LemmaIdx int // 1-based index among the lemmas (0: not a lemma); a lemma's proof may use earlier lemmas only
	Kind  string // requires ensures invariant decreases bound assert
	Label string
	Tags  []string
	E     *Expr
	Text  string
	Pos   string
	DefOf   *GhostFunc // this axiom is the defining equation of a heap-recursive ghost function
	Defines bool // definitional postcondition: assumed by callers, not an obligation (listed in the evidence)
}

type LoopSpec struct {
	Ordinal    int
	Invariants []*Clause
	Decreases  *Clause
	Bound      *Clause
	Modifies   []string // extra heap families to havoc (rarely needed)
}

type Contract struct {
	Key      string // pkgpath.func or pkgpath.Recv.method
	Pkg      string
	Tags     []string
	Requires []*Clause
	Ensures  []*Clause
	Assigns  []string // nil => nothing ; entries like "p.curr" or "*t" ; "any" => unconstrained
	Loops    map[int]*LoopSpec
	Trusted  bool     // contract is assumed, body not checked (only for functions outside /repo)
	Pure     bool     // result is a function of arguments (callers may rely on determinism)
	MayPanic string   // expression under which a panic is permitted (MustCompile)
	Results  []string // names for results (default result, result0, result1 ..)
	Lets     [][2]interface{}
	Pos      string
	Notes    []string
	NoFloat  bool
	External bool
	Fresh    bool // result freshly allocated
	HasCallback bool
	Callback [2]int // ext contract: argument index of the function value and of the slice whose elements it is called with (-1: none)
	Measure  *Clause // termination measure of a recursive function: an integer expression over the entry state
	Rank     int     // second (lexicographic) component of the measure: a constant per function
	Linear   bool // every AST node obtained from a sub-parser or allocated here ends up in the result (no parsed node is dropped)
	Sites    []*SiteAssert
}

// SiteAssert: an assertion checked in the state just before the N-th call (source order; 0 = every call)
// to Callee inside the function.
type SiteAssert struct {
	Invariant bool // invariant of the callback loop of the call (callee has a `callback` clause)
	Ordered   bool // `at callee#n ordered label: guard`: under the guard (final state) the comparator was a strict weak order on the elements, so the trusted "ascending w.r.t. the comparator" fact of the callee is assumed
	Callee string
	N      int
	Assume bool // definitional assumption about ghost state (listed in the evidence), not an obligation
	C      *Clause
}

type GhostFunc struct {
	Name   string
	Params [][2]string
	Sort   string
	Body   *Expr
	Trig   bool
	Pos    string
}

type TypeInv struct {
	Type string // pkgpath.TypeName
	E    *Expr
	Text string
	Pos  string
	Tags []string
}

type Spec struct {
	Contracts map[string]*Contract
	Ghosts    []*GhostFunc
	GhostIdx  map[string]*GhostFunc
	Axioms    []*Clause
	RawSMT    []string
	TypeInvs  []*TypeInv
	Lemmas    []*Clause
	Files     []string
}

func NewSpec() *Spec {
	return &Spec{Contracts: map[string]*Contract{}, GhostIdx: map[string]*GhostFunc{}}
}

var clauseKeywords = map[string]bool{"func": true, "tags": true, "requires": true, "ensures": true, "assigns": true,
	"loop": true, "invariant": true, "decreases": true, "measure": true, "rank": true, "bound": true, "ghost": true, "axiom": true, "smt": true,
	"trusted": true, "pure": true, "maypanic": true, "package": true, "typeinv": true, "lemma": true, "note": true,
	"nofloat": true, "fresh": true, "linear": true, "callback": true, "modifies": true, "end": true, "defines": true, "at": true}

// ReadSpecFile reads one contract file.  defaultPkg is the import path used for unqualified keys.
func (sp *Spec) ReadSpecFile(path, defaultPkg string) error {
	f, err := os.Open(path)
	if err != nil {
		return err
	}
	defer f.Close()
	sp.Files = append(sp.Files, path)
	sc := bufio.NewScanner(f)
	sc.Buffer(make([]byte, 1<<20), 1<<20)
	type rawClause struct {
		kw, rest, pos string
	}
	var raws []rawClause
	ln := 0
	for sc.Scan() {
		ln++
		line := strings.TrimSpace(sc.Text())
		if !strings.HasPrefix(line, "//@") {
			continue
		}
		line = strings.TrimSpace(line[3:])
		if line == "" {
			continue
		}
		if i := strings.Index(line, " //"); i >= 0 && !strings.Contains(line[:i], "\"") {
			line = strings.TrimSpace(line[:i])
		}
		kw := line
		rest := ""
		if i := strings.IndexAny(line, " \t["); i >= 0 {
			kw = line[:i]
			rest = strings.TrimSpace(line[i:])
		}
		pos := fmt.Sprintf("%s:%d", filepath.Base(path), ln)
		if clauseKeywords[kw] {
			raws = append(raws, rawClause{kw, rest, pos})
		} else if len(raws) > 0 {
			raws[len(raws)-1].rest += " " + line
		} else {
			return fmt.Errorf("%s: stray clause text %q", pos, line)
		}
	}
	var cur *Contract
	var curLoop *LoopSpec
	pkg := defaultPkg
	for _, rc := range raws {
		tags, label, body := splitTagsLabel(rc.rest)
		parse := func() (*Clause, error) {
			e, err := ParseExpr(body)
			if err != nil {
				return nil, fmt.Errorf("%s: %v in %q", rc.pos, err, body)
			}
			return &Clause{Kind: rc.kw, Label: label, Tags: tags, E: e, Text: body, Pos: rc.pos}, nil
		}
		switch rc.kw {
		case "package":
			pkg = rc.rest
		case "func":
			key := rc.rest
			if i := strings.Index(key, "("); i > 0 {
				key = strings.TrimSpace(key[:i])
			}
			if !strings.Contains(key, "/") && !strings.HasPrefix(key, "ext:") {
				key = pkg + "." + key
			}
			key = strings.TrimPrefix(key, "ext:")
			if old := sp.Contracts[key]; old != nil {
				cur = old // a later block extends the contract
			} else {
				cur = &Contract{Key: key, Pkg: pkg, Loops: map[int]*LoopSpec{}, Pos: rc.pos}
				sp.Contracts[key] = cur
			}
			curLoop = nil
		case "end":
			cur, curLoop = nil, nil
		case "tags":
			if cur == nil {
				return fmt.Errorf("%s: tags outside func", rc.pos)
			}
			cur.Tags = append(cur.Tags, strings.Fields(rc.rest)...)
		case "trusted":
			cur.Trusted = true
		case "pure":
			cur.Pure = true
		case "nofloat":
			cur.NoFloat = true
		case "fresh":
			cur.Fresh = true
		case "linear":
			cur.Linear = true
		case "measure":
			// measure <expr>: at every call inside its recursive cycle the callee's measure is lower than the
			// caller's at entry, or equal with a lower rank (C09: the recursion terminates)
			if cur == nil {
				return fmt.Errorf("%s: measure outside func", rc.pos)
			}
			c, err := parse()
			if err != nil {
				return err
			}
			cur.Measure = c
		case "rank":
			n, err := strconv.Atoi(strings.TrimSpace(rc.rest))
			if cur == nil || err != nil {
				return fmt.Errorf("%s: expected `rank <n>` inside func", rc.pos)
			}
			cur.Rank = n
		case "callback":
			// callback <i> pairs <j>: the function passed as argument i is called (any number of times) with two elements of
			// the slice passed as argument j, and with every element at least once when the slice has two or more elements
			f := strings.Fields(rc.rest)
			if cur == nil || len(f) != 3 || f[1] != "pairs" {
				return fmt.Errorf("%s: expected `callback <arg> pairs <arg>`", rc.pos)
			}
			a, e1 := strconv.Atoi(strings.TrimPrefix(f[0], "arg"))
			b, e2 := strconv.Atoi(strings.TrimPrefix(f[2], "arg"))
			if e1 != nil || e2 != nil {
				return fmt.Errorf("%s: bad callback clause", rc.pos)
			}
			cur.Callback = [2]int{a, b}
			cur.HasCallback = true
		case "note":
			if cur != nil {
				cur.Notes = append(cur.Notes, rc.rest)
			}
		case "maypanic":
			cur.MayPanic = rc.rest
		case "assigns":
			if cur == nil {
				return fmt.Errorf("%s: assigns outside func", rc.pos)
			}
			for _, a := range strings.Split(rc.rest, ",") {
				a = strings.TrimSpace(a)
				if a != "" && a != "nothing" {
					cur.Assigns = append(cur.Assigns, a)
				}
			}
		case "requires", "ensures", "defines":
			if cur == nil {
				return fmt.Errorf("%s: %s outside func", rc.pos, rc.kw)
			}
			c, err := parse()
			if err != nil {
				return err
			}
			if rc.kw == "requires" {
				cur.Requires = append(cur.Requires, c)
			} else {
				cur.Ensures = append(cur.Ensures, c)
			}
			c.Defines = rc.kw == "defines"
		case "at":
			// at callee#n assert [tags] label: expr
			f := strings.Fields(rc.rest)
			if cur == nil || len(f) < 3 || !(strings.HasPrefix(f[1], "assert") || strings.HasPrefix(f[1], "assume") || strings.HasPrefix(f[1], "invariant") || strings.HasPrefix(f[1], "ordered")) {
				return fmt.Errorf("%s: expected `at callee#n assert expr`", rc.pos)
			}
			isAssume := strings.HasPrefix(f[1], "assume")
			isInv := strings.HasPrefix(f[1], "invariant")
			isOrd := strings.HasPrefix(f[1], "ordered")
			callee, n := f[0], 0
			if i := strings.Index(callee, "#"); i > 0 {
				if callee[i+1:] != "*" {
					n, _ = strconv.Atoi(callee[i+1:])
				}
				callee = callee[:i]
			}
			kwd := "assert"
			if isAssume {
				kwd = "assume"
			}
			if isInv {
				kwd = "invariant"
			}
			if isOrd {
				kwd = "ordered"
			}
			rest := strings.TrimSpace(strings.SplitN(rc.rest, kwd, 2)[1])
			tags, label, body := splitTagsLabel(rest)
			e, err := ParseExpr(body)
			if err != nil {
				return fmt.Errorf("%s: %v in %q", rc.pos, err, body)
			}
			cur.Sites = append(cur.Sites, &SiteAssert{Callee: callee, N: n, Assume: isAssume, Invariant: isInv, Ordered: isOrd, C: &Clause{Kind: kwd, Label: label, Tags: tags, E: e, Text: body, Pos: rc.pos}})
		case "loop":
			n, err := strconv.Atoi(strings.Fields(rc.rest)[0])
			if err != nil || cur == nil {
				return fmt.Errorf("%s: bad loop clause", rc.pos)
			}
			curLoop = &LoopSpec{Ordinal: n}
			cur.Loops[n] = curLoop
		case "modifies":
			if curLoop == nil {
				return fmt.Errorf("%s: modifies outside loop", rc.pos)
			}
			curLoop.Modifies = append(curLoop.Modifies, strings.Fields(rc.rest)...)
		case "invariant", "decreases", "bound":
			if curLoop == nil {
				return fmt.Errorf("%s: %s outside loop", rc.pos, rc.kw)
			}
			c, err := parse()
			if err != nil {
				return err
			}
			switch rc.kw {
			case "invariant":
				curLoop.Invariants = append(curLoop.Invariants, c)
			case "decreases":
				curLoop.Decreases = c
			case "bound":
				curLoop.Bound = c
			}
		case "ghost":
			g, err := parseGhost(rc.rest)
			if err != nil {
				return fmt.Errorf("%s: %v", rc.pos, err)
			}
			g.Pos = rc.pos
			sp.Ghosts = append(sp.Ghosts, g)
			sp.GhostIdx[g.Name] = g
		case "axiom", "lemma":
			c, err := parse()
			if err != nil {
				return err
			}
			if rc.kw == "axiom" {
				sp.Axioms = append(sp.Axioms, c)
			} else {
				sp.Lemmas = append(sp.Lemmas, c)
				c.LemmaIdx = len(sp.Lemmas)
			}
		case "smt":
			sp.RawSMT = append(sp.RawSMT, rc.rest)
		case "typeinv":
			body = strings.TrimSpace(rc.rest)
			if strings.HasPrefix(body, "[") {
				if k := strings.Index(body, "]"); k > 0 {
					body = strings.TrimSpace(body[k+1:])
				}
			}
			i := strings.Index(body, ":")
			if i < 0 {
				return fmt.Errorf("%s: typeinv needs Type: expr", rc.pos)
			}
			tn := strings.TrimSpace(body[:i])
			if !strings.Contains(tn, "/") {
				tn = pkg + "." + tn
			}
			e, err := ParseExpr(body[i+1:])
			if err != nil {
				return fmt.Errorf("%s: %v", rc.pos, err)
			}
			sp.TypeInvs = append(sp.TypeInvs, &TypeInv{Type: tn, E: e, Text: body[i+1:], Pos: rc.pos, Tags: tags})
		}
	}
	return nil
}

// splitTagsLabel handles "[C01 C02] label: expr".
func splitTagsLabel(s string) (tags []string, label, body string) {
	s = strings.TrimSpace(s)
	if strings.HasPrefix(s, "[") {
		if i := strings.Index(s, "]"); i > 0 {
			tags = strings.Fields(strings.ReplaceAll(s[1:i], ",", " "))
			s = strings.TrimSpace(s[i+1:])
		}
	}
	// label: identifier (with . - /) followed by ':' and not '::'
	for i, r := range s {
		if r == ':' {
			if i+1 < len(s) && s[i+1] == ':' {
				break
			}
			cand := s[:i]
			ok := cand != ""
			for _, c := range cand {
				if !(unicode.IsLetter(c) || unicode.IsDigit(c) || c == '.' || c == '-' || c == '_' || c == '/') {
					ok = false
				}
			}
			if ok {
				return tags, cand, strings.TrimSpace(s[i+1:])
			}
			break
		}
		if !(unicode.IsLetter(r) || unicode.IsDigit(r) || r == '.' || r == '-' || r == '_' || r == '/') {
			break
		}
	}
	return tags, "", s
}

func parseGhost(s string) (*GhostFunc, error) {
	// name(a Sort, b Sort) Sort [= expr]
	i := strings.Index(s, "(")
	if i < 0 {
		return nil, fmt.Errorf("ghost: missing (")
	}
	g := &GhostFunc{Name: strings.TrimSpace(s[:i])}
	j := strings.Index(s, ")")
	if j < i {
		return nil, fmt.Errorf("ghost: missing )")
	}
	for _, p := range strings.Split(s[i+1:j], ",") {
		f := strings.Fields(p)
		if len(f) == 0 {
			continue
		}
		if len(f) != 2 {
			return nil, fmt.Errorf("ghost: bad parameter %q", p)
		}
		g.Params = append(g.Params, [2]string{f[0], f[1]})
	}
	rest := strings.TrimSpace(s[j+1:])
	if k := strings.Index(rest, "="); k >= 0 && !strings.HasPrefix(rest[k:], "==") {
		g.Sort = strings.TrimSpace(rest[:k])
		e, err := ParseExpr(rest[k+1:])
		if err != nil {
			return nil, err
		}
		g.Body = e
	} else {
		g.Sort = rest
	}
	if g.Sort == "" {
		return nil, fmt.Errorf("ghost %s: missing result sort", g.Name)
	}
	return g, nil
}

// ---------------------------------------------------------------------------
// expression parser

type tok struct {
	k string // id int str op eof
	s string
}

func lexExpr(s string) ([]tok, error) {
	var out []tok
	i := 0
	for i < len(s) {
		c := s[i]
		switch {
		case c == ' ' || c == '\t' || c == '\n':
			i++
		case c >= '0' && c <= '9':
			j := i
			for j < len(s) && (s[j] >= '0' && s[j] <= '9' || s[j] == 'x' || s[j] >= 'a' && s[j] <= 'f' || s[j] >= 'A' && s[j] <= 'F' || s[j] == '_') {
				j++
			}
			v, err := strconv.ParseInt(strings.ReplaceAll(s[i:j], "_", ""), 0, 64)
			if err != nil {
				// allow 2^63 style big literals in decimal
				out = append(out, tok{"int", s[i:j]})
			} else {
				out = append(out, tok{"int", strconv.FormatInt(v, 10)})
			}
			i = j
		case c == '"':
			j := i + 1
			for j < len(s) && s[j] != '"' {
				if s[j] == '\\' {
					j++
				}
				j++
			}
			if j >= len(s) {
				return nil, fmt.Errorf("unterminated string")
			}
			v, err := strconv.Unquote(s[i : j+1])
			if err != nil {
				return nil, err
			}
			out = append(out, tok{"str", v})
			i = j + 1
		case c == '\'':
			j := i + 1
			for j < len(s) && s[j] != '\'' {
				if s[j] == '\\' {
					j++
				}
				j++
			}
			if j >= len(s) {
				return nil, fmt.Errorf("unterminated char")
			}
			v, _, _, err := strconv.UnquoteChar(s[i+1:j], '\'')
			if err != nil {
				return nil, err
			}
			out = append(out, tok{"int", strconv.Itoa(int(v))})
			i = j + 1
		case unicode.IsLetter(rune(c)) || c == '_' || c == '$':
			j := i
			for j < len(s) && (unicode.IsLetter(rune(s[j])) || s[j] >= '0' && s[j] <= '9' || s[j] == '_' || s[j] == '$' || s[j] == '#') {
				j++
			}
			out = append(out, tok{"id", s[i:j]})
			i = j
		default:
			for _, op := range []string{"<==>", "==>", "::", "==", "!=", "<=", ">=", "&&", "||"} {
				if strings.HasPrefix(s[i:], op) {
					out = append(out, tok{"op", op})
					i += len(op)
					goto next
				}
			}
			if strings.ContainsRune("()[]{},.:<>+-*/%!?", rune(c)) {
				out = append(out, tok{"op", string(c)})
				i++
			} else {
				return nil, fmt.Errorf("unexpected character %q", c)
			}
		next:
		}
	}
	out = append(out, tok{"eof", ""})
	return out, nil
}

type eparser struct {
	t []tok
	p int
}

func ParseExpr(s string) (*Expr, error) {
	t, err := lexExpr(s)
	if err != nil {
		return nil, err
	}
	p := &eparser{t: t}
	e, err := p.iff()
	if err != nil {
		return nil, err
	}
	if p.t[p.p].k != "eof" {
		return nil, fmt.Errorf("unexpected %q", p.t[p.p].s)
	}
	return e, nil
}

func (p *eparser) peek() tok { return p.t[p.p] }
func (p *eparser) isop(s string) bool {
	return p.t[p.p].k == "op" && p.t[p.p].s == s
}
func (p *eparser) accept(s string) bool {
	if p.isop(s) {
		p.p++
		return true
	}
	return false
}
func (p *eparser) expect(s string) error {
	if !p.accept(s) {
		return fmt.Errorf("expected %q, found %q", s, p.peek().s)
	}
	return nil
}

func (p *eparser) iff() (*Expr, error) {
	l, err := p.implies()
	if err != nil {
		return nil, err
	}
	for p.accept("<==>") {
		r, err := p.implies()
		if err != nil {
			return nil, err
		}
		l = &Expr{Op: "<==>", Args: []*Expr{l, r}}
	}
	return l, nil
}

func (p *eparser) implies() (*Expr, error) {
	l, err := p.or()
	if err != nil {
		return nil, err
	}
	if p.accept("==>") {
		r, err := p.implies()
		if err != nil {
			return nil, err
		}
		return &Expr{Op: "==>", Args: []*Expr{l, r}}, nil
	}
	return l, nil
}

func (p *eparser) or() (*Expr, error) {
	l, err := p.and()
	if err != nil {
		return nil, err
	}
	for p.accept("||") {
		r, err := p.and()
		if err != nil {
			return nil, err
		}
		l = &Expr{Op: "||", Args: []*Expr{l, r}}
	}
	return l, nil
}

func (p *eparser) and() (*Expr, error) {
	l, err := p.not()
	if err != nil {
		return nil, err
	}
	for p.accept("&&") {
		r, err := p.not()
		if err != nil {
			return nil, err
		}
		l = &Expr{Op: "&&", Args: []*Expr{l, r}}
	}
	return l, nil
}

func (p *eparser) not() (*Expr, error) {
	if p.accept("!") {
		x, err := p.not()
		if err != nil {
			return nil, err
		}
		return &Expr{Op: "!", Args: []*Expr{x}}, nil
	}
	return p.cmp()
}

func (p *eparser) cmp() (*Expr, error) {
	l, err := p.add()
	if err != nil {
		return nil, err
	}
	// chained comparisons a <= b < c
	var chain *Expr
	for {
		op := ""
		for _, o := range []string{"==", "!=", "<=", ">=", "<", ">"} {
			if p.isop(o) {
				op = o
				break
			}
		}
		if op == "" {
			break
		}
		p.p++
		r, err := p.add()
		if err != nil {
			return nil, err
		}
		c := &Expr{Op: op, Args: []*Expr{l, r}}
		if chain == nil {
			chain = c
		} else {
			chain = &Expr{Op: "&&", Args: []*Expr{chain, c}}
		}
		l = r
	}
	if chain != nil {
		return chain, nil
	}
	return l, nil
}

func (p *eparser) add() (*Expr, error) {
	l, err := p.mul()
	if err != nil {
		return nil, err
	}
	for p.isop("+") || p.isop("-") {
		op := p.peek().s
		p.p++
		r, err := p.mul()
		if err != nil {
			return nil, err
		}
		l = &Expr{Op: op, Args: []*Expr{l, r}}
	}
	return l, nil
}

func (p *eparser) mul() (*Expr, error) {
	l, err := p.unary()
	if err != nil {
		return nil, err
	}
	for p.isop("*") || p.isop("/") || p.isop("%") {
		op := p.peek().s
		p.p++
		r, err := p.unary()
		if err != nil {
			return nil, err
		}
		l = &Expr{Op: op, Args: []*Expr{l, r}}
	}
	return l, nil
}

func (p *eparser) unary() (*Expr, error) {
	if p.accept("-") {
		x, err := p.unary()
		if err != nil {
			return nil, err
		}
		if x.Op == "int" {
			return &Expr{Op: "int", Name: "-" + x.Name}, nil
		}
		return &Expr{Op: "neg", Args: []*Expr{x}}, nil
	}
	if p.accept("!") {
		x, err := p.unary()
		if err != nil {
			return nil, err
		}
		return &Expr{Op: "!", Args: []*Expr{x}}, nil
	}
	return p.postfix()
}

func (p *eparser) postfix() (*Expr, error) {
	x, err := p.primary()
	if err != nil {
		return nil, err
	}
	for {
		switch {
		case p.accept("["):
			if p.accept(":") {
				hi, err := p.iff()
				if err != nil {
					return nil, err
				}
				if err := p.expect("]"); err != nil {
					return nil, err
				}
				x = &Expr{Op: "slice", Args: []*Expr{x, {Op: "int", Name: "0"}, hi}}
				continue
			}
			i, err := p.iff()
			if err != nil {
				return nil, err
			}
			if p.accept(":") {
				var hi *Expr
				if p.isop("]") {
					hi = &Expr{Op: "call", Name: "len", Args: []*Expr{x}}
				} else {
					hi, err = p.iff()
					if err != nil {
						return nil, err
					}
				}
				if err := p.expect("]"); err != nil {
					return nil, err
				}
				x = &Expr{Op: "slice", Args: []*Expr{x, i, hi}}
				continue
			}
			if err := p.expect("]"); err != nil {
				return nil, err
			}
			x = &Expr{Op: "index", Args: []*Expr{x, i}}
		case p.isop(".") && p.t[p.p+1].k == "id":
			p.p++
			name := p.peek().s
			p.p++
			x = &Expr{Op: "field", Name: name, Args: []*Expr{x}}
		default:
			return x, nil
		}
	}
}

func (p *eparser) primary() (*Expr, error) {
	t := p.peek()
	switch t.k {
	case "int":
		p.p++
		return &Expr{Op: "int", Name: t.s}, nil
	case "str":
		p.p++
		return &Expr{Op: "str", Name: t.s}, nil
	case "id":
		p.p++
		switch t.s {
		case "true", "false":
			return &Expr{Op: "bool", Name: t.s}, nil
		case "nil":
			return &Expr{Op: "nil"}, nil
		case "forall", "exists":
			q := &Expr{Op: t.s}
			for {
				n := p.peek()
				if n.k != "id" {
					return nil, fmt.Errorf("quantifier: expected name")
				}
				p.p++
				s := p.peek()
				if s.k != "id" {
					return nil, fmt.Errorf("quantifier: expected sort")
				}
				p.p++
				q.Bound = append(q.Bound, [2]string{n.s, s.s})
				if !p.accept(",") {
					break
				}
			}
			if err := p.expect("::"); err != nil {
				return nil, err
			}
			// optional triggers { e1, e2 }
			for p.accept("{") {
				for {
					tr, err := p.iff()
					if err != nil {
						return nil, err
					}
					q.Trig = append(q.Trig, tr)
					if !p.accept(",") {
						break
					}
				}
				if err := p.expect("}"); err != nil {
					return nil, err
				}
			}
			b, err := p.iff()
			if err != nil {
				return nil, err
			}
			q.Args = []*Expr{b}
			return q, nil
		}
		if p.accept("(") {
			c := &Expr{Op: "call", Name: t.s}
			if !p.accept(")") {
				for {
					a, err := p.iff()
					if err != nil {
						return nil, err
					}
					c.Args = append(c.Args, a)
					if p.accept(")") {
						break
					}
					if err := p.expect(","); err != nil {
						return nil, err
					}
				}
			}
			if c.Name == "old" {
				if len(c.Args) != 1 {
					return nil, fmt.Errorf("old takes one argument")
				}
				return &Expr{Op: "old", Args: c.Args}, nil
			}
			return c, nil
		}
		return &Expr{Op: "var", Name: t.s}, nil
	case "op":
		if t.s == "(" {
			p.p++
			e, err := p.iff()
			if err != nil {
				return nil, err
			}
			if err := p.expect(")"); err != nil {
				return nil, err
			}
			return e, nil
		}
	}
	return nil, fmt.Errorf("unexpected %q", t.s)
}

package main

import (
	"fmt"
	"go/ast"
	"go/token"
	"go/types"
	"sort"
	"strconv"
	"strings"

	"golang.org/x/tools/go/ssa"
)

func unquote(s string) (string, error) { return strconv.Unquote(s) }

// ---------------------------------------------------------------------------
// effects: which heap families an instruction / function may write or allocate into

func (g *Gen) typeFamilies(t types.Type, mod map[string]bool) {
	switch u := t.Underlying().(type) {
	case *types.Struct:
		if isNamed(t, decPkg, "Decimal") {
			mod[g.CellFamily("Dec")] = true
			return
		}
		for i := 0; i < u.NumFields(); i++ {
			mod[g.FieldFamily(t, i)] = true
		}
	case *types.Array:
		mod[g.SeqFamily(g.SortOf(u.Elem()))] = true
	default:
		mod[g.CellFamily(g.SortOf(t))] = true
	}
}

func (g *Gen) addrFamilies(v ssa.Value, mod map[string]bool) {
	switch a := v.(type) {
	case *ssa.FieldAddr:
		// the family written is determined by the outermost struct object
		if inner, ok := a.X.(*ssa.FieldAddr); ok {
			g.addrFamilies(inner, mod)
			return
		}
		if inner, ok := a.X.(*ssa.IndexAddr); ok {
			g.addrFamilies(inner, mod)
			return
		}
		st := a.X.Type().Underlying().(*types.Pointer).Elem()
		mod[g.FieldFamily(st, a.Field)] = true
	case *ssa.IndexAddr:
		switch u := a.X.Type().Underlying().(type) {
		case *types.Slice:
			mod[g.SeqFamily(g.SortOf(u.Elem()))] = true
		case *types.Pointer:
			if inner, ok := a.X.(*ssa.FieldAddr); ok {
				g.addrFamilies(inner, mod)
				return
			}
			g.typeFamilies(u.Elem(), mod)
		}
	case *ssa.Global:
	default:
		if pt, ok := v.Type().Underlying().(*types.Pointer); ok {
			g.typeFamilies(pt.Elem(), mod)
		}
	}
}

func (g *Gen) instrEffects(in ssa.Instruction, mod map[string]bool) {
	switch v := in.(type) {
	case *ssa.Alloc:
		mod["wm"] = true
		g.typeFamilies(v.Type().(*types.Pointer).Elem(), mod)
	case *ssa.Store:
		g.addrFamilies(v.Addr, mod)
	case *ssa.MapUpdate:
		mt := v.Map.Type().Underlying().(*types.Map)
		a, b, c := g.MapFamilies(g.SortOf(mt.Elem()))
		mod[a], mod[b], mod[c] = true, true, true
	case *ssa.MakeMap:
		mt := v.Type().Underlying().(*types.Map)
		a, b, c := g.MapFamilies(g.SortOf(mt.Elem()))
		mod[a], mod[b], mod[c], mod["wm"] = true, true, true, true
	case *ssa.MakeSlice:
		mod["wm"] = true
		mod[g.SeqFamily(g.SortOf(v.Type().Underlying().(*types.Slice).Elem()))] = true
	case *ssa.MakeInterface:
		xt := v.X.Type()
		if _, isPtr := xt.Underlying().(*types.Pointer); isPtr {
			return
		}
		if g.SortOf(v.Type()) == "Val" && g.valCtor(xt, "_") != "" {
			return
		}
		switch g.SortOf(xt) {
		case "Int", "Slice", "Iface":
			return
		}
		mod["wm"] = true
		g.typeFamilies(xt, mod)
	case *ssa.Convert:
		if g.SortOf(v.X.Type()) == "Str" && g.SortOf(v.Type()) == "Slice" {
			mod["wm"] = true
			mod[g.SeqFamily("Int")] = true
		}
	case *ssa.Range:
		id := smtIdent(FuncKey(v.Parent())) + "_" + v.Name()
		if _, ok := v.X.Type().Underlying().(*types.Map); ok {
			mod["IT_seen_"+id] = true
			mod["IT_n_"+id] = true
		} else {
			mod["IT_pos_"+id] = true
		}
	case *ssa.Next:
		if r, ok := v.Iter.(*ssa.Range); ok {
			g.instrEffects(r, mod)
		}
	case *ssa.Call:
		g.callEffects(v.Common(), mod)
	}
}

func (g *Gen) callEffects(c *ssa.CallCommon, mod map[string]bool) {
	if c.IsInvoke() {
		mod["wm"] = true
		return
	}
	switch f := c.Value.(type) {
	case *ssa.Builtin:
		switch f.Name() {
		case "append":
			mod["wm"] = true
			mod[g.SeqFamily(g.SortOf(c.Args[0].Type().Underlying().(*types.Slice).Elem()))] = true
		case "copy":
			mod[g.SeqFamily(g.SortOf(c.Args[0].Type().Underlying().(*types.Slice).Elem()))] = true
		}
		return
	}
	callee := c.StaticCallee()
	if callee == nil {
		mod["wm"] = true
		return
	}
	// interior pointer arguments are copied in and out
	for _, a := range c.Args {
		switch a.(type) {
		case *ssa.FieldAddr, *ssa.IndexAddr:
			g.addrFamilies(a, mod)
			if pt, ok := a.Type().Underlying().(*types.Pointer); ok {
				g.typeFamilies(pt.Elem(), mod)
				mod["wm"] = true
			}
		}
	}
	for f := range g.funcEffects(callee) {
		mod[f] = true
	}
}

func (g *Gen) funcEffects(fn *ssa.Function) map[string]bool {
	if e, ok := g.effects[fn]; ok {
		return e
	}
	e := map[string]bool{}
	g.effects[fn] = e // recursion guard: partial result (completed by the fixpoint in ComputeEffects)
	if g.IsRepoFunc(fn) {
		for _, b := range fn.Blocks {
			for _, in := range b.Instrs {
				g.instrEffects(in, e)
			}
		}
		for _, an := range fn.AnonFuncs {
			for f := range g.funcEffects(an) {
				e[f] = true
			}
		}
		g.ghostEffects(fn, e)
		return e
	}
	// external: from its contract
	c := g.Spec.Contracts[FuncKey(fn)]
	e["wm"] = true
	if c != nil {
		for _, a := range c.Assigns {
			for _, f := range g.assignFamilies(a, fn) {
				e[f] = true
			}
		}
		if c.Fresh {
			res := fn.Signature.Results()
			for i := 0; i < res.Len(); i++ {
				g.resultFamilies(res.At(i).Type(), e)
			}
		}
	}
	return e
}

func (g *Gen) resultFamilies(t types.Type, e map[string]bool) {
	switch u := t.Underlying().(type) {
	case *types.Slice:
		e[g.SeqFamily(g.SortOf(u.Elem()))] = true
	case *types.Map:
		a, b, c := g.MapFamilies(g.SortOf(u.Elem()))
		e[a], e[b], e[c] = true, true, true
	case *types.Pointer:
		g.typeFamilies(u.Elem(), e)
	case *types.Interface:
		if u.NumMethods() == 0 {
			e[g.SeqFamily("Val")] = true
			a, b, c := g.MapFamilies("Val")
			e[a], e[b], e[c] = true, true, true
		}
	}
}

// ghostEffects adds the ghost families (fam:G_...) a contract says its function assigns.
func (g *Gen) ghostEffects(fn *ssa.Function, e map[string]bool) {
	if c := g.Spec.Contracts[FuncKey(fn)]; c != nil {
		for _, a := range c.Assigns {
			if strings.HasPrefix(a, "fam:") {
				switch a[4:] {
				case "G_pos":
					g.Family("G_pos", "Int")
				case "G_toks":
					g.Family("G_toks", "(Array Int Int)")
				}
				e[a[4:]] = true
			}
		}
	}
}

// ComputeEffects iterates funcEffects to a fixpoint (recursion).
func (g *Gen) ComputeEffects() {
	var fns []*ssa.Function
	for _, f := range g.Funcs {
		fns = append(fns, f)
	}
	sort.Slice(fns, func(i, j int) bool { return FuncKey(fns[i]) < FuncKey(fns[j]) })
	for iter := 0; iter < 10; iter++ {
		changed := false
		for _, f := range fns {
			before := len(g.funcEffects(f))
			e := g.effects[f]
			for _, b := range f.Blocks {
				for _, in := range b.Instrs {
					g.instrEffects(in, e)
				}
			}
			g.ghostEffects(f, e)
			if len(e) != before {
				changed = true
			}
		}
		if !changed {
			break
		}
	}
}

// ---------------------------------------------------------------------------
// calls

func (fg *FuncGen) setCallResults(v ssa.Value, rs []TTerm) {
	if v == nil {
		return
	}
	fg.val[v] = rs
}

func (fg *FuncGen) declareResults(v *ssa.Call, sig *types.Signature) []TTerm {
	var rs []TTerm
	res := sig.Results()
	for i := 0; i < res.Len(); i++ {
		t := res.At(i).Type()
		name := fmt.Sprintf("v_%s_r%d", v.Name(), i)
		srt := fg.g.SortOf(t)
		fg.emit("(declare-const %s %s)", name, srt)
		if w := fg.g.WF(t, name); w != "" {
			fg.emit("(assert %s)", w)
		}
		if srt == "Val" {
			fg.emit("(assert (=> c18.ih (val.finite %s)))", name)
		}
		rs = append(rs, TTerm{S: name, Sort: srt, T: t})
	}
	return rs
}

func (fg *FuncGen) call(v *ssa.Call, c *ssa.CallCommon, instr ssa.Instruction) {
	if c.IsInvoke() {
		fg.invoke(v, c)
		return
	}
	if b, ok := c.Value.(*ssa.Builtin); ok {
		fg.builtin(v, b, c)
		return
	}
	callee := c.StaticCallee()
	if callee == nil {
		// closure or function value
		fg.unsupp("call of function value %s", c.Value.Name())
		rs := fg.declareResults(v, c.Signature())
		fg.setCallResults(v, rs)
		fg.havocAllocOnly(map[string]bool{"wm": true})
		return
	}
	key := FuncKey(callee)
	con := fg.g.Spec.Contracts[key]
	// arguments (receiver first)
	var args []TTerm
	type copyBack struct {
		p   *Ptr
		tmp string
		t   types.Type
	}
	var backs []copyBack
	for _, a := range c.Args {
		p, isPtr := fg.ptr[a]
		if isPtr && p.Kind != "obj" {
			// interior pointer: copy in / copy out through a temporary object
			tmp := fg.alloc(p.T)
			fg.store(&Ptr{Kind: "obj", Ref: tmp, T: p.T}, fg.load(p))
			args = append(args, TTerm{S: tmp, Sort: "Int", T: a.Type()})
			backs = append(backs, copyBack{p, tmp, p.T})
			continue
		}
		args = append(args, fg.valueOf(a))
	}
	if callee.Signature.Recv() != nil && len(c.Args) > 0 {
		if _, isPtr := c.Args[0].Type().Underlying().(*types.Pointer); isPtr {
			if !fg.g.nilReceiverOK(key) {
				fg.nilCheckTerm(c.Args[0], args[0].S, v.Pos(), "method call on")
			}
		}
	}
	if con == nil && !fg.g.IsRepoFunc(callee) {
		if fg.special(v, key, callee, args) {
			return
		}
		fg.callsExternalUnmodelled[key] = true
		// effects of a function without any contract are unknown: not acceptable on an API path (C06, C07)
		fg.obl("ext", "ext."+smtIdent(key), v.Pos(), []string{"C03", "C06", "C07", "C09", "C15"}, "false", "call to "+key+", which has no contract (its effects on shared state, its cost and whether it can panic are unknown)")
	}
	fg.siteAsserts(v, callee, args)
	pre := fg.st.Copy()
	wmBefore := fg.famIn(fg.st, "wm")
	names := paramNames(callee)
	bind := map[string]TTerm{}
	for i, a := range args {
		if i < len(names) {
			bind[names[i]] = a
		}
		bind[fmt.Sprintf("arg%d", i)] = a
	}
	// preconditions
	if con != nil {
		env := fg.baseEnv(fg.st, fg.st)
		env.vars = bind
		for i, r := range con.Requires {
			t := env.Tr(r.E)
			if fg.clauseFailed(r) {
				continue
			}
			tags := pick(r.Tags, safetyTags)
			lbl := r.Label
			if lbl == "" {
				lbl = fmt.Sprint(i + 1)
			}
			fg.obl("pre", fmt.Sprintf("pre@%s.%s", shortKey(key), lbl), v.Pos(), tags, t.S, "precondition of "+shortKey(key)+": "+r.Text)
		}
	}
	// termination of recursion (C09): the callee's measure is below the caller's
	if fg.g.Recursive()[callee] && fg.g.Recursive()[fg.fn] && fg.g.sccRep(callee) == fg.g.sccRep(fg.fn) {
		nm := fmt.Sprintf("rec@%s.%d", shortKey(key), fg.recSeq(key))
		if fg.c != nil && fg.c.Measure != nil && con != nil && con.Measure != nil {
			cenv := fg.baseEnv(fg.st, fg.st)
			cenv.vars = bind
			cm := cenv.Tr(con.Measure.E)
			m0 := fg.funcEnv(State{}, State{}, nil).Tr(fg.c.Measure.E)
			fg.obl("rec", nm, v.Pos(), []string{"C09"}, fmt.Sprintf("(and (>= %s 0) (or (< %s %s) (and (= %s %s) %v)))", cm.S, cm.S, m0.S, cm.S, m0.S, con.Rank < fg.c.Rank),
				fmt.Sprintf("recursion terminates: measure of %s (%s, rank %d) is below the measure of the caller at entry (%s, rank %d)", shortKey(key), con.Measure.Text, con.Rank, fg.c.Measure.Text, fg.c.Rank))
		} else if (fg.c != nil && fg.c.Measure != nil) || (con != nil && con.Measure != nil) {
			fg.obl("rec", nm, v.Pos(), []string{"C09"}, "false", "call inside a recursive cycle that is under a termination measure: caller and callee both carry a `measure` clause")
		}
	}
	// effects
	eff := fg.g.funcEffects(callee)
	assigned := map[string]string{} // family -> ref term
	if con != nil {
		for _, a := range con.Assigns {
			if strings.HasPrefix(a, "elems:") {
				if t, ok := bind[a[6:]]; ok && t.Sort == "Slice" {
					if sl, ok2 := t.T.Underlying().(*types.Slice); ok2 {
						f := fg.g.SeqFamily(fg.g.SortOf(sl.Elem()))
						assigned[f] = "(sref " + t.S + ")"
						eff[f] = true
					}
				}
				continue
			}
			name := strings.TrimPrefix(a, "*")
			if i := strings.IndexAny(name, ".@"); i > 0 {
				name = name[:i]
			}
			if t, ok := bind[name]; ok {
				for _, f := range fg.g.assignFamilies(a, callee) {
					assigned[f] = t.S
				}
			}
		}
	}
	// a function literal handed to the callee may be run by it any number of times: whatever the literal can write,
	// in particular the captured variables of this activation, is unknown afterwards
	closureRefs := map[string][]string{}
	for _, a := range c.Args {
		mc, ok := a.(*ssa.MakeClosure)
		if !ok {
			continue
		}
		if lit, ok := mc.Fn.(*ssa.Function); ok {
			for f := range fg.g.funcEffects(lit) {
				eff[f] = true
			}
		}
		for _, bnd := range mc.Bindings {
			pt, ok := bnd.Type().Underlying().(*types.Pointer)
			if !ok {
				continue
			}
			cell := map[string]bool{}
			fg.g.typeFamilies(pt.Elem(), cell)
			for f := range cell {
				eff[f] = true
				closureRefs[f] = append(closureRefs[f], fg.valueOf(bnd).S)
			}
		}
	}
	// `assigns *argN` where the argument is a pointer boxed into an interface (json.Decoder.Decode(&a)): the callee
	// writes the variable the pointer refers to
	if con != nil {
		for _, a := range con.Assigns {
			if !strings.HasPrefix(a, "*arg") {
				continue
			}
			idx := -1
			fmt.Sscan(a[4:], &idx)
			if idx < 0 || idx >= len(c.Args) {
				continue
			}
			mi, ok := c.Args[idx].(*ssa.MakeInterface)
			if !ok {
				continue
			}
			pt, ok := mi.X.Type().Underlying().(*types.Pointer)
			if !ok {
				continue
			}
			cell := map[string]bool{}
			fg.g.typeFamilies(pt.Elem(), cell)
			for f := range cell {
				eff[f] = true
				closureRefs[f] = append(closureRefs[f], fg.valueOf(mi.X).S)
			}
		}
	}
	var fams []string
	for f := range eff {
		fams = append(fams, f)
	}
	sort.Strings(fams)
	for _, f := range fams {
		if _, ok := fg.g.families[f]; !ok || strings.HasPrefix(f, "IT_") {
			continue
		}
		before := fg.famIn(fg.st, f)
		if f == "wm" {
			sym := fg.havocFam(fg.st, f)
			fg.emit("(assert (>= %s %s))", sym, before)
			continue
		}
		sym := fg.havocFam(fg.st, f)
		if strings.HasPrefix(f, "G_") {
			continue
		}
		if crs := closureRefs[f]; len(crs) > 0 {
			cond := "(< r " + wmBefore + ")"
			if ref, ok := assigned[f]; ok {
				cond += " (not (= r " + ref + "))"
			}
			for _, cr := range crs {
				cond += " (not (= r " + cr + "))"
			}
			fg.emit("(assert (forall ((r Int)) (! (=> (and %s) (= (select %s r) (select %s r))) :pattern ((select %s r)))))", cond, sym, before, sym)
		} else if ref, ok := assigned[f]; ok {
			fg.emit("(assert (forall ((r Int)) (! (=> (and (< r %s) (not (= r %s))) (= (select %s r) (select %s r))) :pattern ((select %s r)))))", wmBefore, ref, sym, before, sym)
		} else {
			fg.emit("(assert (forall ((r Int)) (! (=> (< r %s) (= (select %s r) (select %s r))) :pattern ((select %s r)))))", wmBefore, sym, before, sym)
			if gf := fg.g.gatOfFamily(f); gf != "" {
				fg.emit("(assert (forall ((s Slice) (i Int)) (! (=> (< (sref s) %s) (= (%s %s s i) (%s %s s i))) :pattern ((%s %s s i)))))", wmBefore, gf, sym, gf, before, gf, sym)
			}
		}
	}
	rs := fg.declareResults(v, callee.Signature)
	wmAfter := fg.famIn(fg.st, "wm")
	for _, r := range rs {
		fg.assumeBelow(r, wmAfter)
	}
	if con != nil {
		env := fg.baseEnv(fg.st, pre)
		env.wm0 = wmBefore
		env.vars = bind
		env.assume = true
		for i, r := range rs {
			env.vars[fmt.Sprintf("result%d", i)] = r
			if len(rs) == 1 {
				env.vars["result"] = r
			}
		}
		if len(rs) == 2 {
			env.vars["result"] = rs[0]
			env.vars["err"] = rs[1]
		}
		res := callee.Signature.Results()
		for i := 0; i < res.Len() && i < len(rs); i++ {
			if n := res.At(i).Name(); n != "" && n != "_" {
				env.vars[n] = rs[i]
			}
		}
		skolem := map[string]TTerm{}
		env.lookup = func(name string) (TTerm, bool) {
			if t, ok := skolem[name]; ok {
				return t, true
			}
			if strings.HasPrefix(name, "call") && len(name) > 4 && name[4] >= '0' && name[4] <= '9' {
				srt := "Val"
				if strings.HasSuffix(name, "e") {
					srt = "Iface"
				}
				t := fg.declareTmp("sk_"+name, srt, nil)
				skolem[name] = t
				return t, true
			}
			if strings.HasPrefix(name, "log") {
				srt := "(Array Int Val)"
				if strings.HasSuffix(name, "e") {
					srt = "(Array Int Iface)"
				}
				t := fg.declareTmp("sk_"+name, srt, nil)
				skolem[name] = t
				return t, true
			}
			return TTerm{}, false
		}
		for _, en := range con.Ensures {
			t := env.Tr(en.E)
			if fg.clauseFailed(en) {
				continue
			}
			fg.assume(t.S)
		}
		if con.Fresh {
			for _, r := range rs {
				switch r.Sort {
				case "Slice":
					fg.assume("(or (= (scap " + r.S + ") 0) (>= (sref " + r.S + ") " + wmBefore + "))")
				case "Int":
					fg.assume("(>= " + r.S + " " + wmBefore + ")")
				}
			}
		}
	}
	if con != nil && con.HasCallback {
		fg.callbackModel(v, callee, con, c, args, pre, wmBefore)
	}
	if fg.g.IsRepoFunc(callee) && len(args) == len(callee.Params) {
		rel, sorts := fg.g.retRel(callee)
		var ts []string
		okSorts := true
		for i, a := range append(append([]TTerm{}, args...), rs...) {
			if i >= len(sorts) || a.Sort != sorts[i] {
				okSorts = false
			}
			ts = append(ts, a.S)
		}
		if okSorts && len(ts) == len(sorts) && len(ts) > 0 {
			fg.assume("(" + rel + " " + strings.Join(ts, " ") + ")")
		}
	}
	if fg.linear && fg.g.IsRepoFunc(callee) {
		for i, a := range c.Args {
			if i < len(args) && isNodeType(a.Type()) {
				fg.pendSet(args[i], false) // handed over to the callee, which accounts for it in what it returns
			}
		}
		res := callee.Signature.Results()
		for i := 0; i < res.Len() && i < len(rs); i++ {
			if isNodeType(res.At(i).Type()) {
				fg.pendSet(rs[i], true)
			}
		}
	}
	fg.setCallResults(v, rs)
	fg.recordLog(v, rs)
	for _, cb := range backs {
		fg.store(cb.p, fg.load(&Ptr{Kind: "obj", Ref: cb.tmp, T: cb.t}))
	}
}

func (fg *FuncGen) assumeBelow(r TTerm, wm string) {
	switch r.Sort {
	case "Val":
		fg.assume("(val.below " + r.S + " " + wm + ")")
	case "Slice":
		fg.assume("(< (sref " + r.S + ") " + wm + ")")
	case "Iface":
		fg.assume("(< (iref " + r.S + ") " + wm + ")")
	case "Int":
		if r.T != nil {
			switch r.T.Underlying().(type) {
			case *types.Pointer, *types.Map:
				fg.assume("(< " + r.S + " " + wm + ")")
			}
		}
	}
}

func (fg *FuncGen) nilCheckTerm(x ssa.Value, term string, pos token.Pos, what string) {
	if _, ok := x.(*ssa.Alloc); ok {
		return
	}
	if p, ok := fg.ptr[x]; ok && p.Kind != "obj" {
		return
	}
	if strings.HasPrefix(term, "ref_") {
		return
	}
	fg.obl("safe.nil", "", pos, safetyTags, "(not (= "+term+" 0))", what+" non-nil pointer")
}

// nilReceiverOK: methods that explicitly handle a nil receiver.
func (g *Gen) nilReceiverOK(key string) bool {
	if c := g.Spec.Contracts[key]; c != nil {
		for _, n := range c.Notes {
			if n == "nil-receiver-ok" {
				return true
			}
		}
	}
	return false
}

func paramNames(f *ssa.Function) []string {
	var out []string
	sig := f.Signature
	if sig.Recv() != nil {
		out = append(out, sig.Recv().Name())
	}
	for i := 0; i < sig.Params().Len(); i++ {
		out = append(out, sig.Params().At(i).Name())
	}
	return out
}

func (fg *FuncGen) havocAllocOnly(fams map[string]bool) {
	var names []string
	for f := range fams {
		names = append(names, f)
	}
	sort.Strings(names)
	wmBefore := fg.famIn(fg.st, "wm")
	for _, f := range names {
		if _, ok := fg.g.families[f]; !ok {
			continue
		}
		before := fg.famIn(fg.st, f)
		sym := fg.havocFam(fg.st, f)
		if f == "wm" {
			fg.emit("(assert (>= %s %s))", sym, before)
		} else {
			fg.emit("(assert (forall ((r Int)) (! (=> (< r %s) (= (select %s r) (select %s r))) :pattern ((select %s r)))))", wmBefore, sym, before, sym)
		}
	}
}

// invoke: interface method call with dynamic dispatch over the repository's implementations.
func (fg *FuncGen) invoke(v *ssa.Call, c *ssa.CallCommon) {
	recv := fg.valueOf(c.Value)
	nonnil := "(not (= (itype " + recv.S + ") 0))"
	if recv.Sort == "Val" {
		nonnil = "(not (= " + recv.S + " VNil))"
	}
	fg.obl("safe.nil", "", v.Pos(), safetyTags, nonnil, "method "+c.Method.Name()+" called on non-nil interface")
	fg.havocAllocOnly(map[string]bool{"wm": true})
	rs := fg.declareResults(v, c.Signature())
	for _, r := range rs {
		fg.assumeBelow(r, fg.famIn(fg.st, "wm"))
	}
	fg.setCallResults(v, rs)
	// assumed facts about methods of interfaces defined outside the repository
	if isNamed(c.Value.Type(), "reflect", "Type") && c.Method.Name() == "Elem" && len(rs) == 1 {
		fg.assume("(not (= (itype " + rs[0].S + ") 0))")
		fg.assumed = append(fg.assumed, "reflect.Type.Elem returns a non-nil Type")
	}
	if recv.Sort != "Iface" {
		return
	}
	// dynamic dispatch: implementations in the repository that carry a contract
	var keys []string
	for k, f := range fg.g.Funcs {
		if f.Name() == c.Method.Name() && f.Signature.Recv() != nil && fg.g.Spec.Contracts[k] != nil {
			if types.Identical(f.Signature.Params(), c.Signature().Params()) {
				keys = append(keys, k)
			}
		}
	}
	sort.Strings(keys)
	for _, k := range keys {
		f := fg.g.Funcs[k]
		con := fg.g.Spec.Contracts[k]
		rt := f.Signature.Recv().Type()
		guard := fmt.Sprintf("(= (itype %s) %d)", recv.S, fg.g.TypeID(rt))
		bind := map[string]TTerm{}
		names := paramNames(f)
		if _, isPtr := rt.Underlying().(*types.Pointer); isPtr {
			bind[names[0]] = TTerm{S: "(iref " + recv.S + ")", Sort: "Int", T: rt}
		} else {
			bind[names[0]] = TTerm{S: fg.unbox(rt, "(iref "+recv.S+")"), Sort: fg.g.SortOf(rt), T: rt}
		}
		for i, a := range c.Args {
			bind[names[i+1]] = fg.valueOf(a)
		}
		env := fg.baseEnv(fg.st, fg.st)
		env.vars = bind
		for i, r := range con.Requires {
			t := env.Tr(r.E)
			if fg.err != nil {
				return
			}
			fg.obl("pre", fmt.Sprintf("pre@%s.%d", shortKey(k), i+1), v.Pos(), pick(r.Tags, safetyTags), "(=> "+guard+" "+t.S+")", "precondition of "+shortKey(k)+" (dynamic dispatch): "+r.Text)
		}
		for i, r := range rs {
			env.vars[fmt.Sprintf("result%d", i)] = r
			if len(rs) == 1 {
				env.vars["result"] = r
			}
		}
		for _, en := range con.Ensures {
			t := env.Tr(en.E)
			if fg.err != nil {
				return
			}
			fg.assume("(=> " + guard + " " + t.S + ")")
		}
	}
}

func (fg *FuncGen) builtin(v *ssa.Call, b *ssa.Builtin, c *ssa.CallCommon) {
	g := fg.g
	switch b.Name() {
	case "len":
		x := fg.valueOf(c.Args[0])
		switch x.Sort {
		case "Slice":
			fg.define(v, "(slen "+x.S+")")
		case "Str":
			fg.define(v, "(gs.len "+x.S+")")
		case "Int": // map
			mt, ok := c.Args[0].Type().Underlying().(*types.Map)
			if !ok {
				fg.unsupp("len of %s", c.Args[0].Type())
				fg.declare(v)
				return
			}
			_, _, cf := g.MapFamilies(g.SortOf(mt.Elem()))
			t := fg.define(v, fmt.Sprintf("(ite (= %s 0) 0 (select %s %s))", x.S, fg.famIn(fg.st, cf), x.S))
			fg.assume("(and (<= 0 " + t.S + ") (<= " + t.S + " MaxAlloc))")
		default:
			fg.unsupp("len of sort %s", x.Sort)
			fg.declare(v)
		}
	case "cap":
		x := fg.valueOf(c.Args[0])
		fg.define(v, "(scap "+x.S+")")
	case "append":
		fg.appendOp(v, c)
	case "copy":
		dst := fg.valueOf(c.Args[0])
		fg.frameCheck(&Ptr{Kind: "elem", Slice: dst.S}, v.Pos(), "copy")
		es := g.SortOf(c.Args[0].Type().Underlying().(*types.Slice).Elem())
		f := g.SeqFamily(es)
		before := fg.famIn(fg.st, f)
		sym := fg.havocFam(fg.st, f)
		fg.emit("(assert (forall ((r Int)) (! (=> (not (= r (sref %s))) (= (select %s r) (select %s r))) :pattern ((select %s r)))))", dst.S, sym, before, sym)
		fg.declare(v)
	case "min", "max":
		x, y := fg.valueOf(c.Args[0]), fg.valueOf(c.Args[1])
		if x.Sort == "Int" && len(c.Args) == 2 {
			fg.define(v, "(i"+b.Name()+" "+x.S+" "+y.S+")")
			return
		}
		fg.unsupp("builtin %s on %s", b.Name(), x.Sort)
		fg.declare(v)
	default:
		fg.unsupp("builtin %s", b.Name())
		if v != nil && v.Type() != nil {
			if _, isTuple := v.Type().(*types.Tuple); !isTuple {
				fg.declare(v)
			}
		}
	}
}

func (fg *FuncGen) appendOp(v *ssa.Call, c *ssa.CallCommon) {
	g := fg.g
	s := fg.valueOf(c.Args[0])
	t := fg.valueOf(c.Args[1])
	es := g.SortOf(c.Args[0].Type().Underlying().(*types.Slice).Elem())
	if t.Sort == "Str" {
		fg.unsupp("append of string to byte slice")
		fg.declare(v)
		return
	}
	// ownership: appending may write into the spare capacity of s
	if !strings.HasPrefix(s.S, "nilslice") {
		fg.counters["frame"]++
		o := &Obligation{Name: fmt.Sprintf("%s/frame.%d", shortKey(fg.key), fg.counters["frame"]), Kind: "frame", Func: fg.key, Tags: []string{"C06", "C07", "C15", "C18"},
			Guard: fg.curReach, Goal: fmt.Sprintf("(or (>= (sref %s) %s) (= (slen %s) (scap %s)))", s.S, fg.wm0, s.S, s.S), Pos: fg.g.pos(v.Pos()),
			Text: "append target is owned by this call or has no spare capacity", Expect: "unsat", Params: fg.paramConsts, Block: fg.segIdx, Via: -1}
		fg.obls = append(fg.obls, o)
	}
	f := g.SeqFamily(es)
	before := fg.famIn(fg.st, f)
	ref := fg.alloc(v.Type())
	sym := fg.havocFam(fg.st, f)
	fg.emit("(assert (forall ((r Int)) (! (=> (not (= r %s)) (= (select %s r) (select %s r))) :pattern ((select %s r)))))", ref, sym, before, sym)
	gf := gatName(es)
	fg.emit("(assert (forall ((s Slice) (i Int)) (! (=> (not (= (sref s) %s)) (= (%s %s s i) (%s %s s i))) :pattern ((%s %s s i)))))", ref, gf, sym, gf, before, gf, sym)
	r := fg.declare(v)
	fg.emit("(assert (and (= (sref %s) %s) (= (soff %s) 0) (= (slen %s) (+ (slen %s) (slen %s))) (>= (scap %s) (slen %s))))", r.S, ref, r.S, r.S, s.S, t.S, r.S, r.S)
	// the appended part: expand when the length is a literal
	n := -1
	if sl, ok := c.Args[1].(*ssa.Slice); ok {
		if pt, ok := sl.X.Type().Underlying().(*types.Pointer); ok {
			if arr, ok := pt.Elem().Underlying().(*types.Array); ok && sl.Low == nil && sl.High == nil {
				n = int(arr.Len())
			}
		}
	}
	fg.emit("(assert (forall ((i Int)) (! (=> (and (<= 0 i) (< i (slen %s))) (= (%s %s %s i) (%s %s %s i))) :pattern ((%s %s %s i)))))", s.S, gf, sym, r.S, gf, before, s.S, gf, sym, r.S)
	if n >= 0 && n <= 8 {
		for i := 0; i < n; i++ {
			fg.emit("(assert (= (%s %s %s (+ (slen %s) %d)) (%s %s %s %d)))", gf, sym, r.S, s.S, i, gf, before, t.S, i)
		}
	} else {
		fg.emit("(assert (forall ((i Int)) (! (=> (and (<= 0 i) (< i (slen %s))) (= (%s %s %s (+ (slen %s) i)) (%s %s %s i))) :pattern ((%s %s %s i)))))", t.S, gf, sym, r.S, s.S, gf, before, t.S, gf, before, t.S)
		fg.emit("(assert (forall ((j Int)) (! (=> (and (<= (slen %s) j) (< j (+ (slen %s) (slen %s)))) (= (%s %s %s j) (%s %s %s (- j (slen %s))))) :pattern ((%s %s %s j)))))", s.S, s.S, t.S, gf, sym, r.S, gf, before, t.S, s.S, gf, sym, r.S)
		fg.emit("(assert (=> (< 0 (slen %s)) (= (%s %s %s (slen %s)) (%s %s %s 0))))", t.S, gf, sym, r.S, s.S, gf, before, t.S)
	}
	fg.obl("safe.make", "", v.Pos(), safetyTags, fmt.Sprintf("(<= (+ (slen %s) (slen %s)) MaxInt)", s.S, t.S), "append: length in range")
}

// siteAsserts emits the `at callee#n assert` obligations of the enclosing function's contract.
func (fg *FuncGen) siteAsserts(v *ssa.Call, callee *ssa.Function, args []TTerm) {
	if fg.c == nil || len(fg.c.Sites) == 0 {
		return
	}
	name := plainName(callee)
	// ordinal of this call among calls to the same callee, in source order
	if fg.siteOrd == nil {
		fg.siteOrd = map[*ssa.Call]int{}
		byName := map[string][]*ssa.Call{}
		for _, b := range fg.fn.Blocks {
			for _, in := range b.Instrs {
				if c, ok := in.(*ssa.Call); ok {
					if sc := c.Common().StaticCallee(); sc != nil {
						byName[plainName(sc)] = append(byName[plainName(sc)], c)
					}
				}
			}
		}
		for _, cs := range byName {
			sort.Slice(cs, func(i, j int) bool { return cs[i].Pos() < cs[j].Pos() })
			for i, c := range cs {
				fg.siteOrd[c] = i + 1
			}
		}
	}
	ord := fg.siteOrd[v]
	for _, sa := range fg.c.Sites {
		if sa.Callee != name || (sa.N != 0 && sa.N != ord) || sa.Invariant || sa.Ordered {
			continue
		}
		if fg.siteUsed == nil {
			fg.siteUsed = map[*SiteAssert]bool{}
		}
		fg.siteUsed[sa] = true
		env := fg.funcEnv(fg.st, State{}, nil)
		for i, a := range args {
			env.vars[fmt.Sprintf("arg%d", i)] = a
		}
		// local variables of the caller are visible through their latest debug reference in this block
		base := env.lookup
		env.lookup = func(n string) (TTerm, bool) {
			if base != nil {
				if t, ok := base(n); ok {
					return t, true
				}
			}
			if val := fg.resolveInBlock(n, v.Block(), v); val != nil {
				return fg.valueOf(val), true
			}
			return TTerm{}, false
		}
		t := env.Tr(sa.C.E)
		if fg.clauseFailed(sa.C) {
			continue
		}
		if sa.Assume {
			fg.assume(t.S)
			fg.assumed = append(fg.assumed, sa.C.Pos+": "+sa.C.Text)
			continue
		}
		label := sa.C.Label
		if label == "" {
			label = "site"
		}
		fg.obl("assert", fmt.Sprintf("at.%s.%d.%s", name, ord, label), v.Pos(), pick(sa.C.Tags, fg.funcTags()), t.S, sa.C.Text)
	}
}

// allocSiteAsserts emits the `at new:T#n assert` obligations: assertions on the state in which the function
// itself allocates a value of the named type T (n counts the allocations of T in source order; * = every one).
func (fg *FuncGen) allocSiteAsserts(v *ssa.Alloc, tname string) {
	if fg.c == nil || len(fg.c.Sites) == 0 {
		return
	}
	name := "new:" + tname
	found := false
	for _, sa := range fg.c.Sites {
		if sa.Callee == name {
			found = true
		}
	}
	if !found {
		return
	}
	var all []*ssa.Alloc
	for _, b := range fg.fn.Blocks {
		for _, in := range b.Instrs {
			if a, ok := in.(*ssa.Alloc); ok {
				if nt, ok := a.Type().(*types.Pointer).Elem().(*types.Named); ok && nt.Obj().Name() == tname {
					all = append(all, a)
				}
			}
		}
	}
	sort.Slice(all, func(i, j int) bool { return all[i].Pos() < all[j].Pos() })
	ord := 0
	for i, a := range all {
		if a == v {
			ord = i + 1
		}
	}
	for _, sa := range fg.c.Sites {
		if sa.Callee != name || (sa.N != 0 && sa.N != ord) {
			continue
		}
		if fg.siteUsed == nil {
			fg.siteUsed = map[*SiteAssert]bool{}
		}
		fg.siteUsed[sa] = true
		env := fg.funcEnv(fg.st, State{}, nil)
		base := env.lookup
		env.lookup = func(n string) (TTerm, bool) {
			if base != nil {
				if t, ok := base(n); ok {
					return t, true
				}
			}
			if val := fg.resolveInBlock(n, v.Block(), v); val != nil {
				return fg.valueOf(val), true
			}
			return TTerm{}, false
		}
		t := env.Tr(sa.C.E)
		if fg.clauseFailed(sa.C) {
			continue
		}
		if sa.Assume {
			fg.unsupp("`at %s assume` is not allowed (allocation sites only take assertions)", name)
			continue
		}
		label := sa.C.Label
		if label == "" {
			label = "site"
		}
		fg.obl("assert", fmt.Sprintf("at.%s.%d.%s", name, ord, label), v.Pos(), pick(sa.C.Tags, fg.funcTags()), t.S, sa.C.Text)
	}
}

// resolveInBlock finds the SSA value of a source variable as last referenced at or before an instruction.
func (fg *FuncGen) resolveInBlock(name string, b *ssa.BasicBlock, before ssa.Instruction) ssa.Value {
	var best ssa.Value
	cur := b
	for cur != nil && best == nil {
		for _, in := range cur.Instrs {
			if cur == b && in == before {
				break
			}
			if d, ok := in.(*ssa.DebugRef); ok {
				if id, ok := d.Expr.(*ast.Ident); ok && id.Name == name {
					best = d.X
				}
			}
			if phi, ok := in.(*ssa.Phi); ok && phi.Comment == name {
				best = phi
			}
		}
		cur = cur.Idom()
	}
	if best != nil {
		return best
	}
	for _, p := range fg.fn.Params {
		if p.Name() == name {
			return p
		}
	}
	return nil
}

// callbackModel: a callee with a `callback` clause runs the function literal it is given an unknown number of times
// on pairs of elements of a slice.  The caller states an invariant of that hidden loop (`at callee#n invariant`,
// with cbSeen(k) = "element k has been handed to the literal" and cbElem(k) = element k before the call); it is
// established for the empty set, preserved by one call of the literal (by the literal's own contract) on arbitrary
// elements from an arbitrary state satisfying it, and assumed afterwards together with "every element was seen"
// when the slice has at least two elements.
func (fg *FuncGen) callbackModel(v *ssa.Call, callee *ssa.Function, con *Contract, c *ssa.CallCommon, args []TTerm, pre State, wmBefore string) {
	if fg.c == nil || con.Callback[0] >= len(c.Args) || con.Callback[1] >= len(args) {
		return
	}
	mc, ok := c.Args[con.Callback[0]].(*ssa.MakeClosure)
	if !ok {
		return
	}
	lit, ok := mc.Fn.(*ssa.Function)
	if !ok {
		return
	}
	var invs, ords []*SiteAssert
	ord := fg.siteOrd[v]
	for _, sa := range fg.c.Sites {
		if sa.Ordered && sa.Callee == plainName(callee) && (sa.N == 0 || sa.N == ord) {
			ords = append(ords, sa)
			if fg.siteUsed == nil {
				fg.siteUsed = map[*SiteAssert]bool{}
			}
			fg.siteUsed[sa] = true
		}
		if sa.Invariant && sa.Callee == plainName(callee) && (sa.N == 0 || sa.N == ord) {
			invs = append(invs, sa)
			if fg.siteUsed == nil {
				fg.siteUsed = map[*SiteAssert]bool{}
			}
			fg.siteUsed[sa] = true
		}
	}
	if len(invs) == 0 {
		return
	}
	x := args[con.Callback[1]]
	if x.Sort != "Slice" {
		return
	}
	g := fg.g
	qv := g.SeqFamily("Val")
	elem := func(k string) TTerm {
		return TTerm{S: "(gat " + fg.famIn(pre, qv) + " " + x.S + " " + k + ")", Sort: "Val"}
	}
	// captured variables: families and references
	cellRefs := map[string][]string{}
	var cellFams []string
	for _, bnd := range mc.Bindings {
		if pt, ok := bnd.Type().Underlying().(*types.Pointer); ok {
			set := map[string]bool{}
			g.typeFamilies(pt.Elem(), set)
			for f := range set {
				if _, seen := cellRefs[f]; !seen {
					cellFams = append(cellFams, f)
				}
				cellRefs[f] = append(cellRefs[f], fg.valueOf(bnd).S)
			}
		}
	}
	sort.Strings(cellFams)
	mkState := func(base State) State {
		st := base.Copy()
		for _, f := range cellFams {
			before := fg.famIn(pre, f)
			sym := fg.havocFam(st, f)
			cond := "(< r " + wmBefore + ")"
			for _, cr := range cellRefs[f] {
				cond += " (not (= r " + cr + "))"
			}
			fg.emit("(assert (forall ((r Int)) (! (=> (and %s) (= (select %s r) (select %s r))) :pattern ((select %s r)))))", cond, sym, before, sym)
		}
		return st
	}
	envFor := func(st State, seen string) *Env {
		env := fg.funcEnv(st, pre, nil)
		for i, a := range args {
			env.vars[fmt.Sprintf("arg%d", i)] = a
		}
		base := env.lookup
		env.lookup = func(n string) (TTerm, bool) {
			// a variable captured by the literal: the pointer to it (use cell(x) for its value)
			for k, fv := range lit.FreeVars {
				if fv.Name() == n && k < len(mc.Bindings) {
					return TTerm{S: fg.valueOf(mc.Bindings[k]).S, Sort: "Int", T: fv.Type()}, true
				}
			}
			if base != nil {
				if t, ok := base(n); ok {
					return t, true
				}
			}
			if val := fg.resolveInBlock(n, v.Block(), v); val != nil {
				return fg.valueOf(val), true
			}
			return TTerm{}, false
		}
		env.cbSeen = seen
		env.cbElem = elem
		return env
	}
	name := plainName(callee)
	label := func(sa *SiteAssert) string {
		if sa.C.Label != "" {
			return sa.C.Label
		}
		return "inv"
	}
	// 1. establishment
	for _, sa := range invs {
		t := envFor(pre, "((as const (Array Int Bool)) false)").Tr(sa.C.E)
		if fg.clauseFailed(sa.C) {
			continue
		}
		fg.obl("cb.init", fmt.Sprintf("at.%s.%d.%s.init", name, ord, label(sa)), v.Pos(), pick(sa.C.Tags, fg.funcTags()), t.S, sa.C.Text)
	}
	// 2. one call of the literal from an arbitrary state satisfying the invariant
	s1 := mkState(pre)
	seen1 := fg.fresh("cbseen")
	fg.emit("(declare-const %s (Array Int Bool))", seen1)
	for _, sa := range invs {
		t := envFor(s1, seen1).Tr(sa.C.E)
		if fg.clauseFailed(sa.C) {
			continue
		}
		fg.assume(t.S)
	}
	i, j := fg.fresh("cbi"), fg.fresh("cbj")
	fg.emit("(declare-const %s Int)", i)
	fg.emit("(declare-const %s Int)", j)
	fg.assume(fmt.Sprintf("(and (<= 0 %s) (< %s (slen %s)) (<= 0 %s) (< %s (slen %s)))", i, i, x.S, j, j, x.S))
	s2 := mkState(s1)
	if lcon := g.Spec.Contracts[FuncKey(lit)]; lcon != nil {
		env := fg.baseEnv(s2, s1)
		env.assume = true
		for k, p := range lit.Params {
			if k == 0 {
				env.vars[p.Name()] = elem(i)
			} else if k == 1 {
				env.vars[p.Name()] = elem(j)
			}
		}
		for k, fv := range lit.FreeVars {
			if k < len(mc.Bindings) {
				b := fg.valueOf(mc.Bindings[k])
				env.vars[fv.Name()] = TTerm{S: b.S, Sort: "Int", T: fv.Type()}
			}
		}
		cbr := fg.fresh("cbr")
		fg.emit("(declare-const %s Int)", cbr)
		env.vars["result"] = TTerm{S: cbr, Sort: "Int"}
		env.vars["result0"] = TTerm{S: cbr, Sort: "Int"}
		for _, en := range lcon.Ensures {
			t := env.Tr(en.E)
			if fg.clauseFailed(en) {
				continue
			}
			fg.assume(t.S)
		}
	}
	seen2 := fmt.Sprintf("(store (store %s %s true) %s true)", seen1, i, j)
	for _, sa := range invs {
		t := envFor(s2, seen2).Tr(sa.C.E)
		if fg.clauseFailed(sa.C) {
			continue
		}
		fg.obl("cb.pres", fmt.Sprintf("at.%s.%d.%s.pres", name, ord, label(sa)), v.Pos(), pick(sa.C.Tags, fg.funcTags()), t.S, sa.C.Text)
	}
	// 3. after the call: the invariant holds for the final state, and every element was seen when there are two or more
	seen3 := fg.fresh("cbseen")
	fg.emit("(declare-const %s (Array Int Bool))", seen3)
	for _, sa := range invs {
		t := envFor(fg.st, seen3).Tr(sa.C.E)
		if fg.clauseFailed(sa.C) {
			continue
		}
		fg.assume(t.S)
	}
	fg.assume(fmt.Sprintf("(=> (>= (slen %s) 2) (forall ((k Int)) (! (=> (and (<= 0 k) (< k (slen %s))) (select %s k)) :pattern ((select %s k)) :pattern (%s))))", x.S, x.S, seen3, seen3, elem("k").S))
	// 4. what the callee is trusted to have done with the slice: the final contents are a permutation of the former ones
	// (always), and - under the guard of an `ordered` site clause, which has to imply that the comparator was a strict
	// weak order on the elements - ascending with respect to the comparator.  The comparator's value is the function
	// cbres; all that is known about it are the literal's own proved `pure.*` postconditions (clauses that mention
	// neither the heap nor captured variables), instantiated for arbitrary arguments.
	if len(ords) == 0 {
		return
	}
	after := func(k string) TTerm {
		return TTerm{S: "(gat " + fg.famIn(fg.st, qv) + " " + x.S + " " + k + ")", Sort: "Val"}
	}
	perm, inv := fg.fresh("cbperm"), fg.fresh("cbinv")
	fg.emit("(declare-fun %s (Int) Int)", perm)
	fg.emit("(declare-fun %s (Int) Int)", inv)
	fg.assume(fmt.Sprintf("(forall ((k Int)) (! (=> (and (<= 0 k) (< k (slen %s))) (and (<= 0 (%s k)) (< (%s k) (slen %s)) (= (%s (%s k)) k) (= %s %s))) :pattern (%s) :pattern ((%s k))))",
		x.S, perm, perm, x.S, inv, perm, after("k").S, elem("("+perm+" k)").S, after("k").S, perm))
	fg.assume(fmt.Sprintf("(forall ((k Int)) (! (=> (and (<= 0 k) (< k (slen %s))) (and (<= 0 (%s k)) (< (%s k) (slen %s)) (= (%s (%s k)) k))) :pattern (%s) :pattern ((%s k))))",
		x.S, inv, inv, x.S, perm, inv, elem("k").S, inv))
	cbres := fg.fresh("cbres")
	fg.emit("(declare-fun %s (Val Val) Int)", cbres)
	if lcon := g.Spec.Contracts[FuncKey(lit)]; lcon != nil {
		for _, en := range lcon.Ensures {
			if !strings.HasPrefix(en.Label, "pure.") {
				continue
			}
			if strings.Contains(en.Text, "cell(") || strings.Contains(en.Text, "old(") || strings.Contains(en.Text, "heap") {
				fg.emit("; pure clause %s of %s mentions state: ignored", en.Label, FuncKey(lit))
				continue
			}
			env := fg.baseEnv(fg.st, fg.st)
			env.assume = true
			for k, p := range lit.Params {
				if k == 0 {
					env.vars[p.Name()] = TTerm{S: "cb_pa", Sort: "Val"}
				} else if k == 1 {
					env.vars[p.Name()] = TTerm{S: "cb_pb", Sort: "Val"}
				}
			}
			rt := TTerm{S: "(" + cbres + " cb_pa cb_pb)", Sort: "Int"}
			env.vars["result"] = rt
			env.vars["result0"] = rt
			t := env.Tr(en.E)
			if fg.clauseFailed(en) {
				continue
			}
			fg.assume(fmt.Sprintf("(forall ((cb_pa Val) (cb_pb Val)) (! %s :pattern ((%s cb_pa cb_pb))))", t.S, cbres))
		}
	}
	for _, sa := range ords {
		gd := envFor(fg.st, seen3).Tr(sa.C.E)
		if fg.clauseFailed(sa.C) {
			continue
		}
		fg.assume(fmt.Sprintf("(=> %s (forall ((i Int) (j Int)) (! (=> (and (<= 0 i) (< i j) (< j (slen %s))) (<= (%s %s %s) 0)) :pattern (%s %s))))",
			gd.S, x.S, cbres, after("i").S, after("j").S, after("i").S, after("j").S))
	}
}

// plainName: the function's name without the type arguments of a generic instantiation (SortFunc[[]any,any] -> SortFunc)
func plainName(f *ssa.Function) string {
	n := f.Name()
	if i := strings.Index(n, "["); i > 0 {
		n = n[:i]
	}
	return n
}

package main

// Replay of a failed obligation on the real code (DESIGN.md 2.6).
//
// For a function whose parameters are plain values (any, int, string, bool) the failing obligation
// is replayed by calling the *real* function - injected as an in-package test through
// `go test -overlay`, nothing is written into /repo - on candidate inputs: the solver's model when
// there is one, plus a small boundary pool per parameter.  A panic is a failing input; otherwise
// the function's own ensures clauses are evaluated on the observed (input, output) pair by a small
// interpreter of the clause language (run-time assertion checking of the same contract).

import (
	"bytes"
	"context"
	"encoding/json"
	"fmt"
	"go/types"
	"os"
	"os/exec"
	"path/filepath"
	"sort"
	"strconv"
	"strings"
	"time"
	"unicode/utf8"

	"golang.org/x/tools/go/ssa"
)

type Dec struct{ S string }
type JNum string
type ErrV struct {
	Type string
	Msg  string
}
type OtherV struct{ T string }

// ---------------------------------------------------------------------------
// candidate inputs

func intPool() []int64 {
	return []int64{0, 1, -1, 2, -2, 3, -3, 4, 5, -5, 7, 100, -100, 9223372036854775807, -9223372036854775808, 9223372036854775806, 4611686018427387904}
}

func valPool() []string {
	return []string{
		`nil`, `true`, `false`, `""`, `"a"`, `"abc"`, `"aé€😀z"`, `"ééab"`, `"a,b,c"`,
		`[]any{}`, `[]any{int64(1)}`, `[]any{int64(1), int64(2), int64(3), int64(4), int64(5)}`, `[]any{"a", nil, "b", nil, "c"}`,
		`[]any{nil, int64(1)}`, `[]any{[]any{nil, int64(1)}}`, `[]any{"b", "a"}`, `[]any{int64(1), "a"}`, `[]any{true}`,
		`map[string]any{}`, `map[string]any{"a": int64(1), "b": nil}`,
		`int64(0)`, `int64(2)`, `int64(-1)`, `int8(0)`, `uint8(3)`, `float64(2)`, `float64(2.5)`, `float64(9223372036854775808)`,
		`json.Number("2")`, `json.Number("2.0")`, `json.Number("2.5")`, `json.Number("1e400")`, `json.Number("")`,
		`decimal128.FromInt64(2)`, `decimal128.MustParse("2.5")`, `decimal128.NaN()`, `struct{}{}`,
		`int64(9223372036854775807)`, `int64(4611686018427387904)`, `int64(5)`, `int64(100)`,
		`map[string]any{"a": nil, "b": int64(1)}`, `map[string]any{"b": int64(1), "c": int64(2)}`, `[]any{[]any{int64(1), nil}, []any{nil, int64(2)}}`,
		`[]any{map[string]any{"k": true}}`, `uint(9223372036854775808)`,
		`[]int{1}`, `struct{ F []int }{}`, // foreign values of types that are not comparable
	}
}

// corePool: a smaller pool used when a function has three or more value parameters
func corePool() []string {
	return []string{`nil`, `""`, `"aé€😀z"`, `"ééab"`, `"b"`, `","`, `"a,b,c"`, `int64(0)`, `int64(2)`, `int64(-1)`, `int64(5)`, `int64(1)`,
		`int64(9223372036854775807)`, `float64(2.5)`, `json.Number("2.0")`, `decimal128.NaN()`, `[]any{int64(1), nil}`, `"--"`, `"-"`, `"string"`}
}

func strPool() []string {
	return []string{`""`, `"a"`, `"abc"`, `","`, `"aé€😀z"`, `"é"`, `"ééab"`, `"b"`, `"''"`, `"'a\\'b'"`, "\"`1`\"", `"\"a\\u00e9\""`}
}

// ---------------------------------------------------------------------------

type replayCase struct {
	Args []string // Go source of each argument
}

type replayOut struct {
	I       int               `json:"i"`
	Panic   string            `json:"panic,omitempty"`
	Timeout bool              `json:"timeout,omitempty"`
	Args    []json.RawMessage `json:"args"`
	Results []json.RawMessage `json:"results"`
}

func replayable(fn *ssa.Function) bool {
	if fn.Signature.Recv() != nil || fn.Signature.Params().Len() == 0 {
		return false
	}
	ok := func(t types.Type) bool {
		switch u := t.Underlying().(type) {
		case *types.Basic:
			return u.Info()&(types.IsInteger|types.IsString|types.IsBoolean) != 0
		case *types.Interface:
			return u.NumMethods() == 0 || types.Identical(t, types.Universe.Lookup("error").Type())
		}
		return isNamed(t, decPkg, "Decimal")
	}
	ps := fn.Signature.Params()
	for i := 0; i < ps.Len(); i++ {
		if !ok(ps.At(i).Type()) || types.Identical(ps.At(i).Type(), types.Universe.Lookup("error").Type()) {
			return false
		}
	}
	rs := fn.Signature.Results()
	for i := 0; i < rs.Len(); i++ {
		if !ok(rs.At(i).Type()) {
			return false
		}
	}
	return true
}

func candidateCases(fn *ssa.Function, model map[string]string, seed int) []replayCase {
	ps := fn.Signature.Params()
	pools := make([][]string, ps.Len())
	for i := 0; i < ps.Len(); i++ {
		t := ps.At(i).Type()
		var pool []string
		if m, ok := model["p_"+smtIdent(ps.At(i).Name())]; ok && m != "" {
			pool = append(pool, m)
		}
		switch u := t.Underlying().(type) {
		case *types.Basic:
			switch {
			case u.Info()&types.IsInteger != 0:
				for _, v := range intPool() {
					pool = append(pool, fmt.Sprintf("%s(%d)", types.TypeString(t, func(p *types.Package) string { return p.Name() }), v))
				}
			case u.Info()&types.IsString != 0:
				pool = append(pool, strPool()...)
			default:
				pool = append(pool, "true", "false")
			}
		default:
			if ps.Len() >= 3 {
				pool = append(pool, corePool()...)
			} else {
				pool = append(pool, valPool()...)
			}
		}
		pools[i] = pool
	}
	// cartesian product, capped: the model (first entries) is combined with everything, the rest sampled
	var out []replayCase
	total := 1
	for _, p := range pools {
		total *= len(p)
	}
	limit := 9000
	idx := make([]int, len(pools))
	step := 1
	if total > limit {
		step = total/limit + 1
	}
	for n := 0; n < total; n += step {
		k := n + (seed % step)
		if k >= total {
			k = n
		}
		c := replayCase{}
		for i := range pools {
			idx[i] = k % len(pools[i])
			k /= len(pools[i])
			c.Args = append(c.Args, pools[i][idx[i]])
		}
		out = append(out, c)
	}
	return out
}

const replayHelpers = `
func govcEnc(v any) string {
	switch x := v.(type) {
	case nil:
		return "{\"t\":\"nil\"}"
	case error:
		b, _ := json.Marshal(fmt.Sprintf("%T", x))
		m, _ := json.Marshal(func() (s string) { defer func() { if r := recover(); r != nil { s = "PANIC in Error(): " + fmt.Sprint(r) } }(); return x.Error() }())
		return "{\"t\":\"err\",\"type\":" + string(b) + ",\"msg\":" + string(m) + "}"
	case bool:
		return fmt.Sprintf("{\"t\":\"bool\",\"v\":%v}", x)
	case string:
		b, _ := json.Marshal(x)
		if !utf8.ValidString(x) {
			return fmt.Sprintf("{\"t\":\"str\",\"invalid\":true,\"v\":%s,\"hex\":\"%x\"}", string(b), x)
		}
		return "{\"t\":\"str\",\"v\":" + string(b) + "}"
	case json.Number:
		b, _ := json.Marshal(string(x))
		return "{\"t\":\"jnum\",\"v\":" + string(b) + "}"
	case decimal128.Decimal:
		b, _ := json.Marshal(x.String())
		return "{\"t\":\"dec\",\"v\":" + string(b) + "}"
	case float64:
		b, _ := json.Marshal(fmt.Sprint(x))
		return "{\"t\":\"f64\",\"v\":" + string(b) + "}"
	case float32:
		b, _ := json.Marshal(fmt.Sprint(x))
		return "{\"t\":\"f32\",\"v\":" + string(b) + "}"
	case int, int8, int16, int32, int64, uint, uint8, uint16, uint32, uint64:
		return fmt.Sprintf("{\"t\":\"int\",\"k\":\"%T\",\"v\":\"%d\"}", x, x)
	case []any:
		var parts []string
		for _, e := range x {
			parts = append(parts, govcEnc(e))
		}
		return "{\"t\":\"arr\",\"v\":[" + strings.Join(parts, ",") + "]}"
	case map[string]any:
		var ks []string
		for k := range x {
			ks = append(ks, k)
		}
		sort.Strings(ks)
		var parts []string
		for _, k := range ks {
			b, _ := json.Marshal(k)
			parts = append(parts, string(b)+":"+govcEnc(x[k]))
		}
		return "{\"t\":\"obj\",\"v\":{" + strings.Join(parts, ",") + "}}"
	}
	b, _ := json.Marshal(fmt.Sprintf("%T", v))
	return "{\"t\":\"other\",\"type\":" + string(b) + "}"
}

func govcRun(i int, args []any, f func() []any) {
	done := make(chan string, 1)
	go func() {
		defer func() {
			if r := recover(); r != nil {
				b, _ := json.Marshal(fmt.Sprint(r))
				done <- "\"panic\":" + string(b)
			}
		}()
		rs := f()
		var parts []string
		for _, r := range rs {
			parts = append(parts, govcEnc(r))
		}
		done <- "\"results\":[" + strings.Join(parts, ",") + "]"
	}()
	var as []string
	for _, a := range args {
		as = append(as, govcEnc(a))
	}
	select {
	case s := <-done:
		fmt.Printf("GOVC {\"i\":%d,\"args\":[%s],%s}\n", i, strings.Join(as, ","), s)
	case <-time.After(2 * time.Second):
		fmt.Printf("GOVC {\"i\":%d,\"args\":[%s],\"timeout\":true}\n", i, strings.Join(as, ","))
	}
}
`

// runReplay runs the cases against the real function and returns the observations.
func runReplay(repo string, fn *ssa.Function, cases []replayCase) ([]replayOut, string, error) {
	pkg := fn.Pkg.Pkg
	dir := filepath.Join(repo, strings.TrimPrefix(strings.TrimPrefix(pkg.Path(), repoModule), "/"))
	var src strings.Builder
	fmt.Fprintf(&src, "package %s\n\nimport (\n\t\"encoding/json\"\n\t\"fmt\"\n\t\"sort\"\n\t\"strings\"\n\t\"testing\"\n\t\"time\"\n\t\"unicode/utf8\"\n\n\t\"github.com/woodsbury/decimal128\"\n)\n\nvar _ = sort.Strings\nvar _ = utf8.ValidString\nvar _ = decimal128.FromInt64\n", pkg.Name())
	src.WriteString(replayHelpers)
	fmt.Fprintf(&src, "\nfunc TestGovcReplay(t *testing.T) {\n")
	nres := fn.Signature.Results().Len()
	for i, c := range cases {
		var names []string
		for k := range c.Args {
			names = append(names, fmt.Sprintf("a%d", k))
		}
		fmt.Fprintf(&src, "\tfunc() {\n")
		for k, a := range c.Args {
			t := fn.Signature.Params().At(k).Type()
			ts := types.TypeString(t, func(p *types.Package) string {
				if p == pkg {
					return ""
				}
				return p.Name()
			})
			fmt.Fprintf(&src, "\t\tvar a%d %s = %s\n", k, ts, a)
		}
		var rs []string
		for k := 0; k < nres; k++ {
			rs = append(rs, fmt.Sprintf("r%d", k))
		}
		call := fn.Name() + "(" + strings.Join(names, ", ") + ")"
		var asAny []string
		for _, n := range names {
			asAny = append(asAny, "any("+n+")")
		}
		var rsAny []string
		for _, r := range rs {
			rsAny = append(rsAny, "any("+r+")")
		}
		fmt.Fprintf(&src, "\t\tgovcRun(%d, []any{%s}, func() []any { %s := %s; return []any{%s} })\n\t}()\n", i, strings.Join(asAny, ", "), strings.Join(rs, ", "), call, strings.Join(rsAny, ", "))
	}
	fmt.Fprintf(&src, "}\n")
	tmp, err := os.MkdirTemp(scratchDir(), "replay")
	if err != nil {
		return nil, "", err
	}
	defer os.RemoveAll(tmp)
	testFile := filepath.Join(tmp, "govc_replay_test.go")
	os.WriteFile(testFile, []byte(src.String()), 0o644)
	ov := map[string]map[string]string{"Replace": {filepath.Join(dir, "govc_replay_test.go"): testFile}}
	ovb, _ := json.Marshal(ov)
	ovFile := filepath.Join(tmp, "ov.json")
	os.WriteFile(ovFile, ovb, 0o644)
	ctx, cancel := context.WithTimeout(context.Background(), 150*time.Second)
	defer cancel()
	cmd := exec.CommandContext(ctx, "go", "test", "-overlay", ovFile, "-vet=off", "-count=1", "-v", "-timeout", "120s", "-run", "^TestGovcReplay$", ".")
	cmd.Dir = dir
	cmd.Env = append(os.Environ(), "GOFLAGS=-mod=mod", "GOPROXY=off", "GOSUMDB=off", "GOTOOLCHAIN=local", "GOCACHE="+filepath.Join(scratchDir(), "gocache"))
	var out bytes.Buffer
	cmd.Stdout = &out
	cmd.Stderr = &out
	_ = cmd.Run()
	var res []replayOut
	for _, l := range strings.Split(out.String(), "\n") {
		if strings.HasPrefix(l, "GOVC ") {
			var r replayOut
			if json.Unmarshal([]byte(l[5:]), &r) == nil {
				res = append(res, r)
			}
		}
	}
	if len(res) == 0 {
		return res, src.String(), fmt.Errorf("go test output: %s", tail(out.String(), 1500))
	}
	return res, src.String(), nil
}

// ---------------------------------------------------------------------------
// decoding observed values

func decodeCV(raw json.RawMessage) interface{} {
	var m struct {
		T       string          `json:"t"`
		V       json.RawMessage `json:"v"`
		K       string          `json:"k"`
		Type    string          `json:"type"`
		Msg     string          `json:"msg"`
		Invalid bool            `json:"invalid"`
	}
	if json.Unmarshal(raw, &m) != nil {
		return OtherV{"?"}
	}
	switch m.T {
	case "nil":
		return nil
	case "bool":
		var b bool
		json.Unmarshal(m.V, &b)
		return b
	case "str":
		var s string
		json.Unmarshal(m.V, &s)
		if m.Invalid {
			return invalidStr(s)
		}
		return s
	case "int":
		var s string
		json.Unmarshal(m.V, &s)
		n, err := strconv.ParseInt(s, 10, 64)
		if err != nil {
			return bigUint(s) // an unsigned value above MaxInt64: a number the interpreter does not compute with
		}
		return intV{K: m.K, V: n}
	case "jnum":
		var s string
		json.Unmarshal(m.V, &s)
		return JNum(s)
	case "dec":
		var s string
		json.Unmarshal(m.V, &s)
		return Dec{s}
	case "f64", "f32":
		var s string
		json.Unmarshal(m.V, &s)
		f, _ := strconv.ParseFloat(s, 64)
		return f
	case "arr":
		var es []json.RawMessage
		json.Unmarshal(m.V, &es)
		out := []interface{}{}
		for _, e := range es {
			out = append(out, decodeCV(e))
		}
		return out
	case "obj":
		var es map[string]json.RawMessage
		json.Unmarshal(m.V, &es)
		out := map[string]interface{}{}
		for k, e := range es {
			out[k] = decodeCV(e)
		}
		return out
	case "err":
		return ErrV{Type: m.Type, Msg: m.Msg}
	}
	return OtherV{m.Type}
}

type intV struct {
	K string
	V int64
}
type invalidStr string
type bigUint string

// ---------------------------------------------------------------------------
// interpreter of the clause language over concrete values (three-valued: ok=false means "cannot evaluate")

type cenv struct {
	g    *Gen
	vars map[string]interface{}
}

func isNumCV(v interface{}) bool {
	switch v.(type) {
	case intV, Dec, JNum, float64, bigUint:
		return true
	}
	return false
}

var evalDepth int

func (c *cenv) ev(e *Expr) (interface{}, bool) {
	switch e.Op {
	case "int":
		n, err := strconv.ParseInt(e.Name, 10, 64)
		return n, err == nil
	case "bool":
		return e.Name == "true", true
	case "str":
		return e.Name, true
	case "nil":
		return nil, true
	case "var":
		if v, ok := c.vars[e.Name]; ok {
			return v, true
		}
		if e.Name == "heap" {
			return "heap", true
		}
		switch e.Name {
		case "MaxInt":
			return int64(9223372036854775807), true
		case "MinInt":
			return int64(-9223372036854775808), true
		}
		return nil, false
	case "old":
		return c.ev(e.Args[0])
	case "!":
		a, ok := c.ev(e.Args[0])
		b, isb := a.(bool)
		return !b, ok && isb
	case "neg":
		a, ok := c.ev(e.Args[0])
		n, isn := a.(int64)
		return -n, ok && isn
	case "&&":
		a, ok1 := c.ev(e.Args[0])
		if ab, ok := a.(bool); ok1 && ok && !ab {
			return false, true
		}
		b, ok2 := c.ev(e.Args[1])
		if bb, ok := b.(bool); ok2 && ok && !bb {
			return false, true
		}
		ab, i1 := a.(bool)
		bb, i2 := b.(bool)
		return ab && bb, ok1 && ok2 && i1 && i2
	case "||":
		a, ok1 := c.ev(e.Args[0])
		if ab, ok := a.(bool); ok1 && ok && ab {
			return true, true
		}
		b, ok2 := c.ev(e.Args[1])
		if bb, ok := b.(bool); ok2 && ok && bb {
			return true, true
		}
		ab, i1 := a.(bool)
		bb, i2 := b.(bool)
		return ab || bb, ok1 && ok2 && i1 && i2
	case "==>":
		a, ok1 := c.ev(e.Args[0])
		if ab, ok := a.(bool); ok1 && ok && !ab {
			return true, true
		}
		b, ok2 := c.ev(e.Args[1])
		if bb, ok := b.(bool); ok2 && ok && bb {
			return true, true
		}
		ab, i1 := a.(bool)
		bb, i2 := b.(bool)
		return !ab || bb, ok1 && ok2 && i1 && i2
	case "<==>":
		a, ok1 := c.ev(e.Args[0])
		b, ok2 := c.ev(e.Args[1])
		ab, i1 := a.(bool)
		bb, i2 := b.(bool)
		return ab == bb, ok1 && ok2 && i1 && i2
	case "+", "-", "*", "/", "%":
		a, ok1 := c.ev(e.Args[0])
		b, ok2 := c.ev(e.Args[1])
		x, i1 := a.(int64)
		y, i2 := b.(int64)
		if !(ok1 && ok2 && i1 && i2) {
			return nil, false
		}
		switch e.Op {
		case "+":
			return x + y, !addOverflows(x, y)
		case "-":
			return x - y, !addOverflows(x, -y) && y != -9223372036854775808
		case "*":
			if x != 0 && (x*y)/x != y {
				return nil, false
			}
			return x * y, true
		case "/":
			if y == 0 {
				return nil, false
			}
			return x / y, true
		default:
			if y == 0 {
				return nil, false
			}
			return x % y, true
		}
	case "<", "<=", ">", ">=":
		a, ok1 := c.ev(e.Args[0])
		b, ok2 := c.ev(e.Args[1])
		if !(ok1 && ok2) {
			return nil, false
		}
		if x, ok := a.(int64); ok {
			if y, ok := b.(int64); ok {
				switch e.Op {
				case "<":
					return x < y, true
				case "<=":
					return x <= y, true
				case ">":
					return x > y, true
				default:
					return x >= y, true
				}
			}
		}
		if x, ok := a.(string); ok {
			if y, ok := b.(string); ok {
				switch e.Op {
				case "<":
					return x < y, true
				case "<=":
					return x <= y, true
				case ">":
					return x > y, true
				default:
					return x >= y, true
				}
			}
		}
		return nil, false
	case "==", "!=":
		a, ok1 := c.ev(e.Args[0])
		b, ok2 := c.ev(e.Args[1])
		if !(ok1 && ok2) {
			return nil, false
		}
		eq, ok := cvEqual(a, b)
		if e.Op == "!=" {
			eq = !eq
		}
		return eq, ok
	case "index":
		a, ok1 := c.ev(e.Args[0])
		i, ok2 := c.ev(e.Args[1])
		n, isn := i.(int64)
		if !(ok1 && ok2 && isn) {
			return nil, false
		}
		switch x := a.(type) {
		case []interface{}:
			if n < 0 || n >= int64(len(x)) {
				return nil, false
			}
			return x[n], true
		case string:
			if n < 0 || n >= int64(len(x)) {
				return nil, false
			}
			return int64(x[n]), true
		}
		return nil, false
	case "forall", "exists":
		// bounded evaluation over a window that covers every index the clauses talk about
		if len(e.Bound) != 1 || sortFromName(e.Bound[0][1]) != "Int" {
			return nil, false
		}
		hi := int64(12)
		for _, v := range c.vars {
			switch x := v.(type) {
			case []interface{}:
				if int64(len(x))+2 > hi {
					hi = int64(len(x)) + 2
				}
			case string:
				if int64(len(x))+2 > hi {
					hi = int64(len(x)) + 2
				}
			}
		}
		if hi > 400 {
			return nil, false
		}
		all := true
		for k := int64(-3); k <= hi; k++ {
			sub := &cenv{g: c.g, vars: map[string]interface{}{}}
			for n, v := range c.vars {
				sub.vars[n] = v
			}
			sub.vars[e.Bound[0][0]] = k
			r, ok := sub.ev(e.Args[0])
			b, isb := r.(bool)
			if !ok || !isb {
				all = false
				continue
			}
			if e.Op == "forall" && !b {
				return false, true
			}
			if e.Op == "exists" && b {
				return true, true
			}
		}
		if !all {
			return nil, false
		}
		return e.Op == "forall", true
	case "call":
		return c.call(e)
	}
	return nil, false
}

func addOverflows(x, y int64) bool {
	s := x + y
	return (x > 0 && y > 0 && s < 0) || (x < 0 && y < 0 && s >= 0)
}

func cvEqual(a, b interface{}) (bool, bool) {
	switch x := a.(type) {
	case nil:
		return b == nil, true
	case bool:
		y, ok := b.(bool)
		return ok && x == y, true
	case int64:
		y, ok := b.(int64)
		return ok && x == y, ok
	case string:
		y, ok := b.(string)
		return ok && x == y, true
	case intV:
		y, ok := b.(intV)
		return ok && x == y, true
	case ErrV:
		if b == nil {
			return false, true
		}
		return false, false
	case []interface{}:
		y, ok := b.([]interface{})
		if !ok || len(x) != len(y) {
			return false, true
		}
		for i := range x {
			e, ok := cvEqual(x[i], y[i])
			if !ok {
				return false, false
			}
			if !e {
				return false, true
			}
		}
		return true, true
	}
	if b == nil {
		return false, true
	}
	return false, false
}

func (c *cenv) call(e *Expr) (interface{}, bool) {
	if e.Name == "ite" && len(e.Args) == 3 {
		// lazy: recursive ghost definitions guard their recursion with ite
		cv, ok := c.ev(e.Args[0])
		cnd, isb := cv.(bool)
		if !ok || !isb {
			return nil, false
		}
		if cnd {
			return c.ev(e.Args[1])
		}
		return c.ev(e.Args[2])
	}
	evalDepth++
	defer func() { evalDepth-- }()
	if evalDepth > 5000 {
		return nil, false
	}
	var a []interface{}
	for _, x := range e.Args {
		v, ok := c.ev(x)
		if !ok {
			// ite must stay lazy enough for guards
			if e.Name != "ite" {
				return nil, false
			}
		}
		a = append(a, v)
	}
	one := func() interface{} { return a[0] }
	switch e.Name {
	case "len":
		switch x := one().(type) {
		case []interface{}:
			return int64(len(x)), true
		case string:
			return int64(len(x)), true
		case map[string]interface{}:
			return int64(len(x)), true
		}
		return nil, false
	case "isArr":
		_, ok := one().([]interface{})
		return ok, true
	case "isStr":
		_, ok := one().(string)
		_, bad := one().(invalidStr)
		return ok || bad, true
	case "isObj":
		_, ok := one().(map[string]interface{})
		return ok, true
	case "isBool":
		_, ok := one().(bool)
		return ok, true
	case "isNum":
		return isNumCV(one()), true
	case "isInt":
		if _, big := one().(bigUint); big {
			return true, true
		}
		_, ok := one().(intV)
		return ok, true
	case "isOther":
		_, ok := one().(OtherV)
		return ok, true
	case "isNil":
		return one() == nil, true
	case "arr":
		x, ok := one().([]interface{})
		return x, ok
	case "str":
		x, ok := one().(string)
		return x, ok
	case "obj":
		x, ok := one().(map[string]interface{})
		return x, ok
	case "boolv":
		x, ok := one().(bool)
		return x, ok
	case "intv":
		x, ok := one().(intV)
		return x.V, ok
	case "kind":
		x, ok := one().(intV)
		if !ok {
			return nil, false
		}
		id, ok := fixedTypeIDs[x.K]
		return int64(id), ok
	case "mkInt64":
		n, ok := one().(int64)
		return intV{K: "int64", V: n}, ok
	case "mkBool":
		b, ok := one().(bool)
		return b, ok
	case "mkStr":
		s, ok := one().(string)
		return s, ok
	case "mkArr":
		s, ok := one().([]interface{})
		return s, ok
	case "runes":
		s, ok := one().(string)
		return int64(utf8.RuneCountInString(s)), ok && utf8.ValidString(s)
	case "aligned":
		_, ok := one().(string)
		return ok, ok
	case "fresh", "isOld":
		return nil, false
	case "same":
		return cvEqual(a[0], a[1])
	case "min":
		x, ok1 := a[0].(int64)
		y, ok2 := a[1].(int64)
		if x < y {
			return x, ok1 && ok2
		}
		return y, ok1 && ok2
	case "max":
		x, ok1 := a[0].(int64)
		y, ok2 := a[1].(int64)
		if x > y {
			return x, ok1 && ok2
		}
		return y, ok1 && ok2
	case "ite":
		cnd, ok := a[0].(bool)
		if !ok {
			return nil, false
		}
		if cnd {
			return c.ev(e.Args[1])
		}
		return c.ev(e.Args[2])
	case "isType":
		if len(e.Args) == 2 && e.Args[1].Op == "str" {
			want := e.Args[1].Name
			if ev, ok := a[0].(ErrV); ok {
				short := func(s string) string {
					if i := strings.LastIndex(s, "/"); i >= 0 {
						return "*" + s[i+1:]
					}
					return s
				}
				return short(want) == ev.Type || want == ev.Type, true
			}
			return false, a[0] == nil
		}
		return nil, false
	case "specEq":
		if len(a) == 3 {
			return cvSpecEq(a[1], a[2])
		}
		return nil, false
	case "unitWindow":
		s, ok := a[0].(string)
		lo, ok1 := a[1].(int64)
		hi, ok2 := a[2].(int64)
		if !(ok && ok1 && ok2) || !utf8.ValidString(s) {
			return nil, false
		}
		rs := []rune(s)
		if lo < 0 || hi > int64(len(rs)) || lo > hi {
			return nil, false
		}
		return string(rs[lo:hi]), true
	}
	if gf := c.g.Spec.GhostIdx[e.Name]; gf != nil && gf.Body != nil && len(gf.Params) == len(a) {
		sub := &cenv{g: c.g, vars: map[string]interface{}{}}
		for i, p := range gf.Params {
			sub.vars[p[0]] = a[i]
		}
		return sub.ev(gf.Body)
	}
	return nil, false
}

// ---------------------------------------------------------------------------

type ReplayVerdict struct {
	Confirmed bool
	Info      map[string]interface{}
}

// modelToGo converts the solver's value of a parameter into Go source (only simple shapes).
func modelToGo(sexp string, t types.Type) string {
	sexp = strings.TrimSpace(sexp)
	num := func(s string) (int64, bool) {
		s = strings.TrimSpace(s)
		if strings.HasPrefix(s, "(- ") {
			n, err := strconv.ParseUint(strings.TrimSuffix(s[3:], ")"), 10, 64)
			if err != nil {
				return 0, false
			}
			if n == 9223372036854775808 {
				return -9223372036854775808, true
			}
			return -int64(n), n <= 9223372036854775807
		}
		n, err := strconv.ParseInt(s, 10, 64)
		return n, err == nil
	}
	if b, ok := t.Underlying().(*types.Basic); ok && b.Info()&types.IsInteger != 0 {
		if n, ok := num(sexp); ok {
			return fmt.Sprintf("%d", n)
		}
		return ""
	}
	if strings.HasPrefix(sexp, "(VArr (mkslice ") {
		f := strings.Fields(strings.NewReplacer("(", " ", ")", " ").Replace(sexp))
		// VArr mkslice ref off len cap  (numbers may be negative forms; only small lengths are useful)
		if len(f) >= 5 {
			if n, err := strconv.Atoi(f[4]); err == nil && n >= 0 && n <= 64 {
				var es []string
				for i := 0; i < n; i++ {
					es = append(es, fmt.Sprintf("int64(%d)", 10+i))
				}
				return "[]any{" + strings.Join(es, ", ") + "}"
			}
		}
		return ""
	}
	if strings.HasPrefix(sexp, "(VStr (mkstr ") {
		f := strings.Fields(strings.NewReplacer("(", " ", ")", " ").Replace(sexp))
		if len(f) >= 5 {
			lo, e1 := strconv.Atoi(f[len(f)-2])
			hi, e2 := strconv.Atoi(f[len(f)-1])
			if e1 == nil && e2 == nil && hi-lo >= 0 && hi-lo <= 64 {
				return strconv.Quote(strings.Repeat("a", hi-lo))
			}
		}
		return ""
	}
	switch sexp {
	case "VNil":
		return "nil"
	case "(VBool true)":
		return "true"
	case "(VBool false)":
		return "false"
	}
	return ""
}

func parseModel(model string) map[string]string {
	out := map[string]string{}
	// ((p_v (VArr ...)) (p_i 3))
	s := strings.TrimSpace(model)
	if !strings.HasPrefix(s, "((") {
		return out
	}
	s = s[1 : len(s)-1]
	depth := 0
	start := -1
	for i := 0; i < len(s); i++ {
		switch s[i] {
		case '(':
			if depth == 0 {
				start = i
			}
			depth++
		case ')':
			depth--
			if depth == 0 && start >= 0 {
				item := s[start+1 : i]
				if j := strings.IndexAny(item, " \n"); j > 0 {
					out[item[:j]] = strings.TrimSpace(item[j:])
				}
			}
		}
	}
	return out
}

// Replay tries to exhibit a failing input of fn on the real code.
func (g *Gen) Replay(repo string, fg *FuncGen, r *Result, seed int) *ReplayVerdict {
	fn := fg.fn
	v := &ReplayVerdict{Info: map[string]interface{}{}}
	if !replayable(fn) {
		// a method of an error type: replay the functions that construct that type instead
		if alt := g.constructorOf(fn); alt != nil {
			if afg, err := g.GenFunc(alt); err == nil {
				rv := g.Replay(repo, afg, &Result{}, seed)
				rv.Info["replayed_through"] = shortKey(FuncKey(alt))
				return rv
			}
		}
		v.Info["skipped"] = "function signature is outside the replay harness (receiver, AST or pointer parameters)"
		return v
	}
	model := map[string]string{}
	for k, sexp := range parseModel(r.Model) {
		for i := 0; i < fn.Signature.Params().Len(); i++ {
			p := fn.Signature.Params().At(i)
			if k == "p_"+smtIdent(p.Name()) {
				if src := modelToGo(sexp, p.Type()); src != "" {
					model[k] = src
				}
			}
		}
	}
	cases := candidateCases(fn, model, seed)
	obs, src, err := runReplay(repo, fn, cases)
	if err != nil || len(obs) == 0 {
		v.Info["error"] = fmt.Sprint("replay harness produced no observations: ", err)
		return v
	}
	v.Info["cases_run"] = len(obs)
	v.Info["model_used"] = model
	names := paramNames(fn)
	// inputs outside the function's preconditions are not counterexamples: a case is used only when every
	// requires clause evaluates to true on it (a clause the interpreter cannot evaluate excludes the case)
	argEnv := func(o replayOut) *cenv {
		env := &cenv{g: g, vars: map[string]interface{}{}}
		for i, a := range o.Args {
			if i < len(names) {
				cv := decodeCV(a)
				if iv, ok := cv.(intV); ok {
					if b, ok2 := fn.Signature.Params().At(i).Type().Underlying().(*types.Basic); ok2 && b.Info()&types.IsInteger != 0 {
						cv = iv.V
					}
				}
				env.vars[names[i]] = cv
			}
		}
		return env
	}
	admissible := func(o replayOut) bool {
		if fg.c == nil {
			return true
		}
		env := argEnv(o)
		for _, rq := range fg.c.Requires {
			val, ok := env.ev(rq.E)
			if b, isb := val.(bool); !ok || !isb || !b {
				return false
			}
		}
		return true
	}
	var kept []replayOut
	for _, o := range obs {
		if admissible(o) {
			kept = append(kept, o)
		}
	}
	v.Info["cases_within_preconditions"] = len(kept)
	obs = kept
	for _, o := range obs {
		if o.Panic != "" || o.Timeout {
			v.Confirmed = true
			what := "panic: " + o.Panic
			if o.Timeout {
				what = "did not return within 2 s"
			}
			v.Info["failing_input"] = cases[o.I].Args
			v.Info["observed"] = what
			v.Info["test_source_excerpt"] = excerpt(src, o.I)
			return v
		}
	}
	// run-time assertion checking of the function's own postconditions (and two contract-free oracles)
	for _, o := range obs {
		env := argEnv(o)
		res := fn.Signature.Results()
		for i, rr := range o.Results {
			cv := decodeCV(rr)
			if iv, ok := cv.(intV); ok && i < res.Len() {
				if b, ok2 := res.At(i).Type().Underlying().(*types.Basic); ok2 && b.Info()&types.IsInteger != 0 {
					cv = iv.V
				}
			}
			env.vars[fmt.Sprintf("result%d", i)] = cv
			if len(o.Results) == 1 {
				env.vars["result"] = cv
			}
			if len(o.Results) == 2 && i == 0 {
				env.vars["result"] = cv
			}
			if len(o.Results) == 2 && i == 1 {
				env.vars["err"] = cv
			}
		}
		// every returned error can be formatted (C03)
		for _, rr := range o.Results {
			if ev, ok := decodeCV(rr).(ErrV); ok && strings.HasPrefix(ev.Msg, "PANIC in Error()") {
				v.Confirmed = true
				v.Info["failing_input"] = cases[o.I].Args
				v.Info["observed"] = "the returned error (" + ev.Type + ") cannot be formatted: " + ev.Msg
				return v
			}
		}
		// string results must be valid UTF-8 when the inputs are (C11)
		for _, rr := range o.Results {
			if hasInvalidString(decodeCV(rr)) && !anyInvalid(o.Args) {
				v.Confirmed = true
				v.Info["failing_input"] = cases[o.I].Args
				v.Info["observed"] = "result contains a string that is not valid UTF-8: " + string(rr)
				return v
			}
		}
		if fg.c == nil {
			continue
		}
		for _, en := range fg.c.Ensures {
			if en.Defines {
				continue
			}
			val, ok := env.ev(en.E)
			if b, isb := val.(bool); ok && isb && !b {
				v.Confirmed = true
				v.Info["failing_input"] = cases[o.I].Args
				var rs []string
				for _, rr := range o.Results {
					rs = append(rs, string(rr))
				}
				v.Info["observed"] = "results " + strings.Join(rs, ", ")
				v.Info["violated_clause"] = en.Label + ": " + en.Text
				v.Info["test_source_excerpt"] = excerpt(src, o.I)
				return v
			}
		}
	}
	return v
}

func hasInvalidString(v interface{}) bool {
	switch x := v.(type) {
	case invalidStr:
		return true
	case []interface{}:
		for _, e := range x {
			if hasInvalidString(e) {
				return true
			}
		}
	case map[string]interface{}:
		var ks []string
		for k := range x {
			ks = append(ks, k)
		}
		sort.Strings(ks)
		for _, k := range ks {
			if hasInvalidString(x[k]) {
				return true
			}
		}
	}
	return false
}

func anyInvalid(args []json.RawMessage) bool {
	for _, a := range args {
		if hasInvalidString(decodeCV(a)) {
			return true
		}
	}
	return false
}

func excerpt(src string, i int) string {
	marker := fmt.Sprintf("govcRun(%d,", i)
	k := strings.Index(src, marker)
	if k < 0 {
		return ""
	}
	start := strings.LastIndex(src[:k], "func() {")
	end := k + strings.Index(src[k:], "}()")
	if start < 0 || end < k {
		return ""
	}
	return src[start : end+3]
}

// cvSpecEq: the specification's deep, type-strict equality on concrete values (numbers of different
// representations are not compared here: "cannot evaluate").
func cvSpecEq(x, y interface{}) (bool, bool) {
	if isNumCV(x) || isNumCV(y) {
		if isNumCV(x) != isNumCV(y) {
			return false, true
		}
		xi, ok1 := x.(intV)
		yi, ok2 := y.(intV)
		if ok1 && ok2 {
			return xi.V == yi.V, true
		}
		return false, false
	}
	switch a := x.(type) {
	case nil:
		return y == nil, true
	case bool:
		b, ok := y.(bool)
		return ok && a == b, true
	case string:
		b, ok := y.(string)
		return ok && a == b, true
	case []interface{}:
		b, ok := y.([]interface{})
		if !ok || len(a) != len(b) {
			return false, true
		}
		for i := range a {
			e, ok := cvSpecEq(a[i], b[i])
			if !ok {
				return false, false
			}
			if !e {
				return false, true
			}
		}
		return true, true
	case map[string]interface{}:
		b, ok := y.(map[string]interface{})
		if !ok || len(a) != len(b) {
			return false, true
		}
		for k, av := range a {
			bv, has := b[k]
			if !has {
				return false, true
			}
			e, ok := cvSpecEq(av, bv)
			if !ok {
				return false, false
			}
			if !e {
				return false, true
			}
		}
		return true, true
	}
	return false, false
}

// constructorOf: for a method on *T, a replayable repository function that allocates a T.
func (g *Gen) constructorOf(fn *ssa.Function) *ssa.Function {
	recv := fn.Signature.Recv()
	if recv == nil {
		return nil
	}
	pt, ok := recv.Type().Underlying().(*types.Pointer)
	if !ok {
		return nil
	}
	var keys []string
	for k := range g.Funcs {
		keys = append(keys, k)
	}
	sort.Strings(keys)
	for _, k := range keys {
		f := g.Funcs[k]
		if !replayable(f) {
			continue
		}
		for _, b := range f.Blocks {
			for _, in := range b.Instrs {
				if a, ok := in.(*ssa.Alloc); ok && types.Identical(a.Type().(*types.Pointer).Elem(), pt.Elem()) {
					return f
				}
			}
		}
	}
	return nil
}

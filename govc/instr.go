package main

import (
	"os"
	"fmt"
	"go/token"
	"go/types"
	"strings"

	"golang.org/x/tools/go/ssa"
)

var safetyTags = []string{"C03"}

func (fg *FuncGen) instr(in ssa.Instruction) {
	g := fg.g
	switch v := in.(type) {
	case *ssa.DebugRef:
		return
	case *ssa.Alloc:
		ref := fg.alloc(v.Type())
		elem := v.Type().(*types.Pointer).Elem()
		fg.define(v, ref)
		p := &Ptr{Kind: "obj", Ref: ref, T: elem}
		fg.ptr[v] = p
		fg.store(p, g.Zero(elem))
		if isNamed(elem, "strings", "Builder") {
			g.Family("B_len", "(Array Int Int)")
			g.Family("B_runes", "(Array Int Int)")
			g.Family("B_ok", "(Array Int Bool)")
			fg.setFam("B_len", "(store "+fg.famIn(fg.st, "B_len")+" "+ref+" 0)")
			fg.setFam("B_runes", "(store "+fg.famIn(fg.st, "B_runes")+" "+ref+" 0)")
			fg.setFam("B_ok", "(store "+fg.famIn(fg.st, "B_ok")+" "+ref+" true)")
			g.Family("B_okprev", "(Array Int Bool)")
			g.Family("B_last", "(Array Int Int)")
			fg.setFam("B_okprev", "(store "+fg.famIn(fg.st, "B_okprev")+" "+ref+" true)")
			fg.setFam("B_last", "(store "+fg.famIn(fg.st, "B_last")+" "+ref+" (- 1))")
		}
		if nt, ok := elem.(*types.Named); ok && v.Heap {
			fg.allocSiteAsserts(v, nt.Obj().Name())
		}
	case *ssa.BinOp:
		fg.binop(v)
	case *ssa.UnOp:
		fg.unop(v)
	case *ssa.Call:
		fg.call(v, v.Common(), v)
	case *ssa.ChangeInterface:
		x := fg.valueOf(v.X)
		from, to := x.Sort, g.SortOf(v.Type())
		switch {
		case from == to:
			fg.define(v, x.S)
		case from == "Iface" && to == "Val":
			fg.define(v, fmt.Sprintf("(ite (= (itype %s) 0) VNil (VOther (itype %s) (iref %s)))", x.S, x.S, x.S))
		default:
			fg.unsupp("change interface %s -> %s", from, to)
			fg.declare(v)
		}
	case *ssa.ChangeType:
		x := fg.valueOf(v.X)
		fg.define(v, x.S)
		if p, ok := fg.ptr[v.X]; ok {
			fg.ptr[v] = p
		}
	case *ssa.Convert:
		fg.convert(v)
	case *ssa.Extract:
		ts := fg.val[v.Tuple]
		if v.Index < len(ts) {
			t := ts[v.Index]
			fg.val[v] = []TTerm{{S: t.S, Sort: t.Sort, T: v.Type()}}
		} else {
			fg.unsupp("extract from unknown tuple %s", v.Tuple.Name())
			fg.declare(v)
		}
	case *ssa.Field:
		x := fg.valueOf(v.X)
		ss := g.structSort(v.X.Type())
		fg.define(v, "("+ss.Fields[v.Field]+" "+x.S+")")
	case *ssa.FieldAddr:
		parent := fg.ptrOf(v.X)
		fg.nilCheck(v.X, v.Pos(), "field address")
		fg.ptr[v] = &Ptr{Kind: "field", Parent: parent, Field: v.Field, T: v.Type().(*types.Pointer).Elem()}
		fg.val[v] = []TTerm{{S: "0", Sort: "Int", T: v.Type()}}
	case *ssa.If:
		c := fg.valueOf(v.Cond)
		b := v.Block()
		fg.edge[[2]*ssa.BasicBlock{b, b.Succs[0]}] = c.S
		fg.edge[[2]*ssa.BasicBlock{b, b.Succs[1]}] = "(not " + c.S + ")"
	case *ssa.Jump:
		b := v.Block()
		fg.edge[[2]*ssa.BasicBlock{b, b.Succs[0]}] = "true"
	case *ssa.Index:
		x := fg.valueOf(v.X)
		i := fg.valueOf(v.Index)
		switch u := v.X.Type().Underlying().(type) {
		case *types.Array:
			fg.obl("safe.index", "", v.Pos(), safetyTags, fmt.Sprintf("(and (<= 0 %s) (< %s %d))", i.S, i.S, u.Len()), "array index in range")
			fg.define(v, "(select "+x.S+" "+i.S+")")
		case *types.Basic: // string
			fg.obl("safe.index", "", v.Pos(), safetyTags, fmt.Sprintf("(and (<= 0 %s) (< %s (gs.len %s)))", i.S, i.S, x.S), "string index in range")
			fg.define(v, "(gs.at "+x.S+" "+i.S+")")
		default:
			fg.unsupp("index on %s", v.X.Type())
			fg.declare(v)
		}
	case *ssa.IndexAddr:
		i := fg.valueOf(v.Index)
		switch u := v.X.Type().Underlying().(type) {
		case *types.Slice:
			x := fg.valueOf(v.X)
			fg.obl("safe.index", "", v.Pos(), safetyTags, fmt.Sprintf("(and (<= 0 %s) (< %s (slen %s)))", i.S, i.S, x.S), "slice index in range")
			fg.ptr[v] = &Ptr{Kind: "elem", Slice: x.S, Idx: i.S, ElemSort: g.SortOf(u.Elem()), T: u.Elem()}
		case *types.Pointer: // *[N]T
			arr := u.Elem().Underlying().(*types.Array)
			fg.nilCheck(v.X, v.Pos(), "array pointer")
			fg.obl("safe.index", "", v.Pos(), safetyTags, fmt.Sprintf("(and (<= 0 %s) (< %s %d))", i.S, i.S, arr.Len()), "array index in range")
			fg.ptr[v] = &Ptr{Kind: "aidx", Parent: fg.ptrOf(v.X), Idx: i.S, T: arr.Elem()}
		default:
			fg.unsupp("indexaddr on %s", v.X.Type())
		}
		fg.val[v] = []TTerm{{S: "0", Sort: "Int", T: v.Type()}}
	case *ssa.Lookup:
		fg.lookup(v)
	case *ssa.MakeClosure:
		fg.define(v, fmt.Sprint(g.TypeID(v.Type())))
	case *ssa.MakeInterface:
		fg.makeInterface(v)
	case *ssa.MakeMap:
		mt := v.Type().Underlying().(*types.Map)
		ref := fg.alloc(v.Type())
		fg.define(v, ref)
		vf, df, cf := g.MapFamilies(g.SortOf(mt.Elem()))
		fg.setFam(df, fmt.Sprintf("(store %s %s ((as const (Array Int Bool)) false))", fg.famIn(fg.st, df), ref))
		fg.setFam(cf, fmt.Sprintf("(store %s %s 0)", fg.famIn(fg.st, cf), ref))
		fg.setFam(vf, fmt.Sprintf("(store %s %s ((as const (Array Int %s)) %s))", fg.famIn(fg.st, vf), ref, g.SortOf(mt.Elem()), g.Zero(mt.Elem())))
		if v.Reserve != nil {
			// a negative hint panics only for non-constant sizes that are negative; len() hints are fine
			r := fg.valueOf(v.Reserve)
			fg.obl("safe.make", "", v.Pos(), safetyTags, "(>= "+r.S+" 0)", "map size hint non-negative")
		}
	case *ssa.MakeSlice:
		st := v.Type().Underlying().(*types.Slice)
		l, c := fg.valueOf(v.Len), fg.valueOf(v.Cap)
		fg.obl("safe.make", "", v.Pos(), safetyTags, fmt.Sprintf("(and (<= 0 %s) (<= %s %s) (<= %s MaxAlloc))", l.S, l.S, c.S, c.S), "makeslice: len and cap in range")
		ref := fg.alloc(v.Type())
		f := g.SeqFamily(g.SortOf(st.Elem()))
		fg.setFam(f, fmt.Sprintf("(store %s %s ((as const (Array Int %s)) %s))", fg.famIn(fg.st, f), ref, g.SortOf(st.Elem()), g.Zero(st.Elem())))
		fg.define(v, fmt.Sprintf("(mkslice %s 0 %s %s)", ref, l.S, c.S))
	case *ssa.MapUpdate:
		fg.mapUpdate(v)
	case *ssa.Next:
		fg.next(v)
	case *ssa.Range:
		fg.rangeInit(v)
	case *ssa.Panic:
		cond := "false"
		if fg.c != nil && fg.c.MayPanic != "" {
			cond = "true" // permitted by contract (checked separately through the functional postcondition)
		}
		fg.obl("safe.panic", "", v.Pos(), safetyTags, cond, "explicit panic unreachable")
		fg.panicBlocks = append(fg.panicBlocks, v.Block())
	case *ssa.Return:
		var rs []TTerm
		for _, r := range v.Results {
			rs = append(rs, fg.valueOf(r))
		}
		b := v.Block()
		if fg.linear && len(rs) > 0 {
			for i, r := range v.Results {
				if isNodeType(r.Type()) {
					fg.pendSet(rs[i], false)
				}
			}
			last := rs[len(rs)-1]
			if last.Sort == "Iface" && !isNodeType(v.Results[len(rs)-1].Type()) {
				fg.obl("linear", "", v.Pos(), []string{"C04", "C01", "C17"}, fmt.Sprintf("(=> (= (itype %s) 0) (forall ((k Int)) (! (not (select %s k)) :pattern ((select %s k)))))", last.S, fg.famIn(fg.st, "G_pend"), fg.famIn(fg.st, "G_pend")),
					"on success every AST node parsed or built in this call is part of the returned node (nothing parsed is dropped)")
			}
		}
		fg.retBlocks = append(fg.retBlocks, b)
		fg.retVals[b] = rs
		fg.retSt[b] = fg.st.Copy()
	case *ssa.RunDefers:
	case *ssa.Slice:
		fg.sliceOp(v)
	case *ssa.Store:
		p := fg.ptrOf(v.Addr)
		val := fg.valueOf(v.Val)
		fg.frameCheck(p, v.Pos(), "store")
		fg.store(p, val.S)
		if isNodeType(v.Val.Type()) {
			fg.pendSet(val, false) // the node becomes part of another node (or of a list of nodes)
		}
	case *ssa.TypeAssert:
		fg.typeAssert(v)
	case *ssa.Defer, *ssa.Go, *ssa.Select, *ssa.Send:
		fg.unsupp("instruction %T outside subset G0", in)
		fg.obl("g0", "", in.Pos(), []string{"C07", "C15"}, "false", fmt.Sprintf("%T is outside the verified subset (concurrency, a source of nondeterminism)", in))
	default:
		fg.unsupp("instruction %T", in)
		if val, ok := in.(ssa.Value); ok {
			fg.declare(val)
		}
	}
}

func (fg *FuncGen) nilCheck(x ssa.Value, pos token.Pos, what string) {
	if _, ok := x.(*ssa.Alloc); ok {
		return
	}
	if _, ok := fg.ptr[x]; ok {
		if fg.ptr[x].Kind != "obj" {
			return
		}
	}
	if _, ok := x.(*ssa.Global); ok {
		return
	}
	t := fg.valueOf(x)
	if fg.fn.Signature.Recv() != nil && len(fg.fn.Params) > 0 && x == ssa.Value(fg.fn.Params[0]) {
		// receiver nil-ness is an obligation of the caller (methods are only called on non-nil receivers unless they say otherwise)
	}
	fg.obl("safe.nil", "", pos, safetyTags, "(not (= "+t.S+" 0))", what+" of non-nil pointer")
}

// frameCheck emits the ownership obligation for a write (C06/C07).
func (fg *FuncGen) frameCheck(p *Ptr, pos token.Pos, what string) {
	root := p.rootRef()
	if root == "" {
		if fg.fn.Name() == "init" {
			return
		}
		fg.obl("frame", "", pos, []string{"C06", "C07", "C15"}, "false", what+" to package-level variable")
		return
	}
	if strings.HasPrefix(root, "ref_") {
		return // allocated by this activation: trivially fresh
	}
	goal := "(>= " + root + " " + fg.wm0 + ")"
	for _, fv := range fg.fn.FreeVars {
		if t, ok := fg.val[fv]; ok && t[0].S == root {
			// a variable of the enclosing function captured by this closure: it belongs to the activation that built the
			// closure (an allocation of that activation), which is what the frame discipline permits
			return
		}
	}
	if fg.c != nil && len(fg.c.Assigns) > 0 {
		// writes permitted by the assigns clause: the root must be one of the listed parameter objects
		var alts []string
		for _, a := range fg.c.Assigns {
			if strings.HasPrefix(a, "elems:") {
				// elems:<expr>: the elements of a slice reachable from a parameter may be written
				if e, err := ParseExpr(a[6:]); err == nil {
					env := fg.funcEnv(fg.st, State{}, nil)
					t := env.Tr(e)
					if t.Sort == "Slice" {
						alts = append(alts, "(= "+root+" (sref "+t.S+"))")
					}
				}
				continue
			}
			name := strings.TrimPrefix(a, "*")
			if i := strings.Index(name, "."); i > 0 {
				name = name[:i]
			}
			for _, prm := range fg.fn.Params {
				if prm.Name() == name {
					alts = append(alts, "(= "+root+" "+fg.val[prm][0].S+")")
				}
			}
		}
		if len(alts) > 0 {
			goal = "(or " + goal + " " + strings.Join(alts, " ") + ")"
		}
	}
	fg.obl("frame", "", pos, []string{"C06", "C07", "C15", "C18"}, goal, what+" targets memory allocated by this call (or listed in assigns)")
}

func (fg *FuncGen) binop(v *ssa.BinOp) {
	x, y := fg.valueOf(v.X), fg.valueOf(v.Y)
	srt := x.Sort
	var term string
	switch srt {
	case "Int":
		switch v.Op {
		case token.ADD, token.SUB, token.MUL:
			op := map[token.Token]string{token.ADD: "+", token.SUB: "-", token.MUL: "*"}[v.Op]
			raw := "(" + op + " " + x.S + " " + y.S + ")"
			half, signed := halfRange(v.Type())
			smallConst := func(x ssa.Value) bool {
				c, ok := x.(*ssa.Const)
				if !ok || c.Value == nil {
					return false
				}
				s := c.Value.ExactString()
				return s == "1" || s == "-1" || s == "2" || s == "-2" || s == "0"
			}
			if signed && half == "9223372036854775808" && (v.Op != token.MUL || smallConst(v.X) || smallConst(v.Y)) {
				term = "(wrap64 " + raw + ")"
			} else if signed {
				term = "(wrapmod " + raw + " " + half + ")"
			} else {
				term = "(mod " + raw + " " + half + ")"
			}
		case token.QUO, token.REM:
			fg.obl("safe.div", "", v.Pos(), safetyTags, "(not (= "+y.S+" 0))", "division by zero")
			half, signed := halfRange(v.Type())
			if v.Op == token.QUO {
				term = "(tdiv " + x.S + " " + y.S + ")"
				if signed {
					// the only overflowing quotient is MinT / -1, which wraps to MinT
					term = "(ite (and (= " + y.S + " (- 1)) (= " + x.S + " (- " + half + "))) " + x.S + " " + term + ")"
				}
			} else {
				term = "(trem " + x.S + " " + y.S + ")"
			}
		case token.EQL:
			term = "(= " + x.S + " " + y.S + ")"
		case token.NEQ:
			term = "(not (= " + x.S + " " + y.S + "))"
		case token.LSS:
			term = "(< " + x.S + " " + y.S + ")"
		case token.LEQ:
			term = "(<= " + x.S + " " + y.S + ")"
		case token.GTR:
			term = "(> " + x.S + " " + y.S + ")"
		case token.GEQ:
			term = "(>= " + x.S + " " + y.S + ")"
		default:
			fg.unsupp("integer operator %s", v.Op)
			fg.declare(v)
			return
		}
	case "Bool":
		switch v.Op {
		case token.EQL:
			term = "(= " + x.S + " " + y.S + ")"
		case token.NEQ:
			term = "(not (= " + x.S + " " + y.S + "))"
		case token.AND, token.LAND:
			term = "(and " + x.S + " " + y.S + ")"
		case token.OR, token.LOR:
			term = "(or " + x.S + " " + y.S + ")"
		default:
			fg.unsupp("bool operator %s", v.Op)
			fg.declare(v)
			return
		}
	case "Str":
		switch v.Op {
		case token.EQL:
			term = fg.strEq(v.X, v.Y, x, y)
		case token.NEQ:
			term = "(not " + fg.strEq(v.X, v.Y, x, y) + ")"
		case token.LSS:
			term = "(gs.lt " + x.S + " " + y.S + ")"
		case token.GTR:
			term = "(gs.lt " + y.S + " " + x.S + ")"
		case token.LEQ:
			term = "(not (gs.lt " + y.S + " " + x.S + "))"
		case token.GEQ:
			term = "(not (gs.lt " + x.S + " " + y.S + "))"
		case token.ADD:
			t := fg.declare(v)
			fg.emit("(assert (and (= (slo %s) 0) (= (gs.len %s) (+ (gs.len %s) (gs.len %s))) (= (blen (sbase %s)) (shi %s))))", t.S, t.S, x.S, y.S, t.S, t.S)
			fg.emit("(assert (= %s (gs.concat %s %s)))", t.S, x.S, y.S)
			return
		default:
			fg.unsupp("string operator %s", v.Op)
			fg.declare(v)
			return
		}
	case "Val":
		nilY := isNilConst(v.Y)
		nilX := isNilConst(v.X)
		switch {
		case v.Op == token.EQL && nilY:
			term = "(= " + x.S + " VNil)"
		case v.Op == token.NEQ && nilY:
			term = "(not (= " + x.S + " VNil))"
		case v.Op == token.EQL && nilX:
			term = "(= " + y.S + " VNil)"
		case v.Op == token.NEQ && nilX:
			term = "(not (= " + y.S + " VNil))"
		case v.Op == token.EQL || v.Op == token.NEQ:
			// comparing two interface values panics at run time when both hold the same type and that type is not
			// comparable: []any, map[string]any, and (unknown, so possibly) any foreign type
			fg.obl("safe.cmp", "", v.Pos(), safetyTags, fmt.Sprintf("(not (or (and ((_ is VArr) %[1]s) ((_ is VArr) %[2]s)) (and ((_ is VObj) %[1]s) ((_ is VObj) %[2]s)) (and ((_ is VOther) %[1]s) ((_ is VOther) %[2]s) (= (votype %[1]s) (votype %[2]s)))))", x.S, y.S),
				"== on interface values whose common dynamic type may not be comparable (runtime panic)")
			term = "(val.ifaceeq " + x.S + " " + y.S + ")"
			if v.Op == token.NEQ {
				term = "(not " + term + ")"
			}
		default:
			fg.unsupp("operator %s on any", v.Op)
			fg.declare(v)
			return
		}
	case "Iface":
		switch v.Op {
		case token.EQL:
			term = "(= " + x.S + " " + y.S + ")"
		case token.NEQ:
			term = "(not (= " + x.S + " " + y.S + "))"
		default:
			fg.unsupp("operator %s on interface", v.Op)
			fg.declare(v)
			return
		}
	case "Slice":
		// only comparison with nil is legal
		other := y
		if isNilConst(v.X) {
			other = x
			x = y
		}
		_ = other
		if v.Op == token.EQL {
			term = "(= (sref " + x.S + ") 0)"
		} else {
			term = "(not (= (sref " + x.S + ") 0))"
		}
	case "F64", "F32":
		p := strings.ToLower(srt)
		switch v.Op {
		case token.ADD, token.SUB, token.MUL, token.QUO:
			op := map[token.Token]string{token.ADD: "add", token.SUB: "sub", token.MUL: "mul", token.QUO: "div"}[v.Op]
			term = "(" + p + "." + op + " " + x.S + " " + y.S + ")"
		case token.EQL:
			term = "(" + p + ".eq " + x.S + " " + y.S + ")"
		case token.NEQ:
			term = "(not (" + p + ".eq " + x.S + " " + y.S + "))"
		case token.LSS:
			term = "(" + p + ".lt " + x.S + " " + y.S + ")"
		case token.GTR:
			term = "(" + p + ".lt " + y.S + " " + x.S + ")"
		case token.LEQ:
			term = "(" + p + ".le " + x.S + " " + y.S + ")"
		case token.GEQ:
			term = "(" + p + ".le " + y.S + " " + x.S + ")"
		default:
			fg.unsupp("float operator %s", v.Op)
			fg.declare(v)
			return
		}
	default:
		if v.Op == token.EQL {
			term = "(= " + x.S + " " + y.S + ")"
		} else if v.Op == token.NEQ {
			term = "(not (= " + x.S + " " + y.S + "))"
		} else {
			fg.unsupp("operator %s on sort %s", v.Op, srt)
			fg.declare(v)
			return
		}
	}
	fg.define(v, term)
	if v.Op == token.ADD {
		if phi, ok := v.X.(*ssa.Phi); ok && phi.Comment == "rangeindex" {
			if li := fg.loops[phi.Block()]; li != nil && li.iterSym != "" && v.Block() == phi.Block() {
				fg.emit("(assert (= %s %s))", fg.val[v][0].S, li.iterSym)
			}
		}
	}
}

func isNilConst(v ssa.Value) bool {
	c, ok := v.(*ssa.Const)
	return ok && c.Value == nil
}

// strEq expands comparisons with constants into length + byte facts (both directions are sound).
func (fg *FuncGen) strEq(vx, vy ssa.Value, x, y TTerm) string {
	if c, ok := vy.(*ssa.Const); ok && c.Value != nil {
		return fg.strEqConst(x.S, constStr(c))
	}
	if c, ok := vx.(*ssa.Const); ok && c.Value != nil {
		return fg.strEqConst(y.S, constStr(c))
	}
	return "(gs.eq " + x.S + " " + y.S + ")"
}

func constStr(c *ssa.Const) string {
	s := c.Value.ExactString()
	if u, err := unquote(s); err == nil {
		return u
	}
	return s
}

func (fg *FuncGen) strEqConst(x string, c string) string {
	name := fg.fresh("seq")
	parts := []string{fmt.Sprintf("(= (gs.len %s) %d)", x, len(c))}
	for i := 0; i < len(c); i++ {
		parts = append(parts, fmt.Sprintf("(= (gs.at %s %d) %d)", x, i, c[i]))
	}
	fg.emitDef("%s", "Bool", "(and %s)", name, strings.Join(parts, " "))
	fg.emit("(assert (= %s (gs.eq %s %s)))", name, x, fg.g.StrConst(c))
	return name
}

func (fg *FuncGen) unop(v *ssa.UnOp) {
	switch v.Op {
	case token.MUL: // load
		p := fg.ptrOf(v.X)
		if p.Kind == "obj" {
			fg.nilCheck(v.X, v.Pos(), "load")
		}
		t := fg.define(v, fg.load(p))
		fg.assumeLoaded(t, v.Type(), p)
		if _, ok := v.Type().Underlying().(*types.Pointer); ok {
			// loaded pointer: object reference
		}
	case token.NOT:
		x := fg.valueOf(v.X)
		fg.define(v, "(not "+x.S+")")
	case token.SUB:
		x := fg.valueOf(v.X)
		switch x.Sort {
		case "Int":
			half, signed := halfRange(v.Type())
			if signed {
				fg.define(v, "(wrapmod (- "+x.S+") "+half+")")
			} else {
				fg.define(v, "(mod (- "+x.S+") "+half+")")
			}
		case "F64":
			fg.define(v, "(f64.neg "+x.S+")")
		case "F32":
			fg.define(v, "(f32.neg "+x.S+")")
		default:
			fg.unsupp("negation of %s", x.Sort)
			fg.declare(v)
		}
	default:
		fg.unsupp("unary operator %s", v.Op)
		fg.declare(v)
	}
}

// assumeLoaded states the type invariants of a value read from the heap.
func (fg *FuncGen) assumeLoaded(t TTerm, typ types.Type, p *Ptr) {
	if w := fg.g.WF(typ, t.S); w != "" {
		fg.assume(w)
	}
	if t.Sort == "Val" {
		fg.assume("(=> c18.ih (val.finite " + t.S + "))")
	}
	wm := fg.famIn(fg.st, "wm")
	root := ""
	if p != nil {
		root = p.rootRef()
	}
	var below func(w string) string
	switch t.Sort {
	case "Val":
		below = func(w string) string { return "(val.below " + t.S + " " + w + ")" }
	case "Slice":
		below = func(w string) string { return "(< (sref " + t.S + ") " + w + ")" }
	case "Iface":
		below = func(w string) string { return "(< (iref " + t.S + ") " + w + ")" }
	case "Int":
		switch typ.Underlying().(type) {
		case *types.Pointer, *types.Map:
			below = func(w string) string { return "(< " + t.S + " " + w + ")" }
		}
	}
	if below == nil {
		return
	}
	fg.assume(below(wm))
	if root != "" && !strings.HasPrefix(root, "ref_") {
		// what is reachable from an object that existed at entry existed at entry
		fg.assume("(=> (< " + root + " " + fg.wm0 + ") " + below(fg.wm0) + ")")
	}
}

func (fg *FuncGen) convert(v *ssa.Convert) {
	x := fg.valueOf(v.X)
	from, to := x.Sort, fg.g.SortOf(v.Type())
	switch {
	case from == "Int" && to == "Int":
		flo, fhi, _ := intRange(v.X.Type())
		tlo, thi, ok := intRange(v.Type())
		if !ok {
			fg.define(v, x.S)
			return
		}
		if contains(flo, fhi, tlo, thi) {
			fg.define(v, x.S)
			return
		}
		half, signed := halfRange(v.Type())
		if signed {
			fg.define(v, "(wrapmod "+x.S+" "+half+")")
		} else {
			fg.define(v, "(mod "+x.S+" "+half+")")
		}
	case from == "F32" && to == "F64":
		fg.define(v, "(f64.of32 "+x.S+")")
	case from == "F64" && to == "F32":
		fg.define(v, "(f32.of64 "+x.S+")")
	case from == "F64" && to == "F64", from == "F32" && to == "F32", from == "Str" && to == "Str":
		fg.define(v, x.S)
	case (from == "F64" || from == "F32") && to == "Int":
		p := strings.ToLower(from)
		lo, hi, _ := intRange(v.Type())
		// Go: the result of an out-of-range conversion is implementation-defined (no panic)
		t := fg.declare(v)
		fg.assume(fmt.Sprintf("(=> (%s.inintrange %s %s %s) (= %s (%s.toint %s)))", p, x.S, lo, hi, t.S, p, x.S))
	case from == "Int" && (to == "F64" || to == "F32"):
		fg.define(v, "("+strings.ToLower(to)+".ofint "+x.S+")")
	case from == "Int" && to == "Str":
		t := fg.declare(v)
		fg.assume("(and (= (slo " + t.S + ") 0) (>= (gs.len " + t.S + ") 1) (<= (gs.len " + t.S + ") 4) (= (blen (sbase " + t.S + ")) (shi " + t.S + ")))")
	case from == "Slice" && to == "Str":
		t := fg.declare(v)
		fg.assume("(and (= (slo " + t.S + ") 0) (= (gs.len " + t.S + ") (slen " + x.S + ")) (= (blen (sbase " + t.S + ")) (shi " + t.S + ")))")
		fg.assume("(= " + t.S + " (gs.ofbytes (select " + fg.famIn(fg.st, fg.g.SeqFamily("Int")) + " (sref " + x.S + ")) (soff " + x.S + ") (slen " + x.S + ")))")
	case from == "Str" && to == "Slice":
		ref := fg.alloc(v.Type())
		f := fg.g.SeqFamily("Int")
		sym := fg.havocFam(fg.st, f)
		prev := fmt.Sprintf("%s!%d", f, fg.ver[f]-1)
		if fg.ver[f] == 1 {
			prev = f + "!0"
		}
		fg.emit("(assert (forall ((r Int)) (! (=> (not (= r %s)) (= (select %s r) (select %s r))) :pattern ((select %s r)))))", ref, sym, prev, sym)
		fg.emit("(assert (forall ((i Int)) (! (=> (and (<= 0 i) (< i (gs.len %s))) (= (select (select %s %s) i) (gs.at %s i))) :pattern ((select (select %s %s) i)))))", x.S, sym, ref, x.S, sym, ref)
		fg.define(v, fmt.Sprintf("(mkslice %s 0 (gs.len %s) (gs.len %s))", ref, x.S, x.S))
		fg.g.Family("BY_src", "(Array Int Str)")
		fg.setFam("BY_src", "(store "+fg.famIn(fg.st, "BY_src")+" "+ref+" "+x.S+")")
	default:
		fg.unsupp("conversion %s -> %s", from, to)
		fg.declare(v)
	}
}

func contains(flo, fhi, tlo, thi string) bool {
	v := func(s string) float64 {
		s = strings.TrimSuffix(strings.TrimPrefix(s, "(- "), ")")
		neg := false
		if strings.HasPrefix(s, "MinInt") {
			return -9.223372036854775808e18
		}
		if strings.HasPrefix(s, "MaxInt") {
			return 9.223372036854775807e18
		}
		var f float64
		fmt.Sscan(s, &f)
		if neg {
			return -f
		}
		return f
	}
	neg := func(s string) float64 {
		if strings.HasPrefix(s, "(- ") {
			return -v(s)
		}
		return v(s)
	}
	return neg(tlo) <= neg(flo) && neg(fhi) <= neg(thi)
}

func (fg *FuncGen) sliceOp(v *ssa.Slice) {
	x := fg.valueOf(v.X)
	get := func(val ssa.Value, def string) string {
		if val == nil {
			return def
		}
		return fg.valueOf(val).S
	}
	switch u := v.X.Type().Underlying().(type) {
	case *types.Basic: // string
		lo := get(v.Low, "0")
		hi := get(v.High, "(gs.len "+x.S+")")
		fg.obl("safe.slice", "", v.Pos(), safetyTags, fmt.Sprintf("(and (<= 0 %s) (<= %s %s) (<= %s (gs.len %s)))", lo, lo, hi, hi, x.S), "string slice bounds in range")
		fg.define(v, fmt.Sprintf("(gs.sub %s %s %s)", x.S, lo, hi))
	case *types.Slice:
		lo := get(v.Low, "0")
		hi := get(v.High, "(slen "+x.S+")")
		mx := get(v.Max, "(scap "+x.S+")")
		fg.obl("safe.slice", "", v.Pos(), safetyTags, fmt.Sprintf("(and (<= 0 %s) (<= %s %s) (<= %s %s) (<= %s (scap %s)))", lo, lo, hi, hi, mx, mx, x.S), "slice bounds in range")
		fg.define(v, fmt.Sprintf("(mkslice (sref %s) (+ (soff %s) %s) (- %s %s) (- %s %s))", x.S, x.S, lo, hi, lo, mx, lo))
	case *types.Pointer: // *[N]T
		arr := u.Elem().Underlying().(*types.Array)
		n := fmt.Sprint(arr.Len())
		lo := get(v.Low, "0")
		hi := get(v.High, n)
		p := fg.ptrOf(v.X)
		if p.Kind != "obj" {
			fg.unsupp("slice of interior array")
			fg.declare(v)
			return
		}
		fg.obl("safe.slice", "", v.Pos(), safetyTags, fmt.Sprintf("(and (<= 0 %s) (<= %s %s) (<= %s %s))", lo, lo, hi, hi, n), "array slice bounds in range")
		fg.define(v, fmt.Sprintf("(mkslice %s %s (- %s %s) (- %s %s))", p.Ref, lo, hi, lo, n, lo))
	default:
		fg.unsupp("slice of %s", v.X.Type())
		fg.declare(v)
	}
}

// ---------------------------------------------------------------------------
// interfaces

// valCtor wraps a term of Go type t into Val.
func (g *Gen) valCtor(t types.Type, s string) string {
	t = types.Unalias(t)
	if isNamed(t, decPkg, "Decimal") {
		return "(VDec " + s + ")"
	}
	if isNamed(t, "encoding/json", "Number") {
		return "(VJNum " + s + ")"
	}
	if _, named := t.(*types.Named); !named {
		switch u := t.(type) {
		case *types.Basic:
			switch u.Kind() {
			case types.Bool:
				return "(VBool " + s + ")"
			case types.String:
				return "(VStr " + s + ")"
			case types.Float64:
				return "(VF64 " + s + ")"
			case types.Float32:
				return "(VF32 " + s + ")"
			}
			if u.Info()&types.IsInteger != 0 {
				return fmt.Sprintf("(VInt %d %s)", g.TypeID(t), s)
			}
		case *types.Slice:
			if isAny(u.Elem()) {
				return "(VArr " + s + ")"
			}
		case *types.Map:
			if isAny(u.Elem()) {
				if b, ok := u.Key().(*types.Basic); ok && b.Kind() == types.String {
					return "(VObj " + s + ")"
				}
			}
		}
	}
	return ""
}

func (fg *FuncGen) makeInterface(v *ssa.MakeInterface) {
	g := fg.g
	x := fg.valueOf(v.X)
	xt := v.X.Type()
	if os.Getenv("GOVC_LIST_BOX") != "" && g.SortOf(v.Type()) == "Val" {
		fmt.Fprintf(os.Stderr, "BOX %s %s %s\n", shortKey(fg.key), xt.String(), g.pos(v.Pos()))
	}
	if g.SortOf(v.Type()) == "Val" {
		fg.carrierObligations(v, xt, x)
		if c := g.valCtor(xt, x.S); c != "" {
			if strings.HasPrefix(c, "(VStr ") {
				if _, isConst := v.X.(*ssa.Const); !isConst {
					fg.obl("utf8", "", v.Pos(), []string{"C11"}, "(gs.aligned "+x.S+")", "string value starts and ends on code point boundaries of its text")
				}
			}
			fg.define(v, c)
			return
		}
		id := g.TypeID(xt)
		switch x.Sort {
		case "Int":
			fg.define(v, fmt.Sprintf("(VOther %d %s)", id, x.S))
		case "Slice":
			fg.define(v, fmt.Sprintf("(VOther %d (sref %s))", id, x.S))
		case "Iface":
			fg.define(v, fmt.Sprintf("(VOther %d (iref %s))", id, x.S))
		default:
			ref := fg.box(xt, x.S)
			fg.define(v, fmt.Sprintf("(VOther %d %s)", id, ref))
		}
		return
	}
	id := g.TypeID(xt)
	if _, ok := xt.Underlying().(*types.Pointer); ok {
		fg.define(v, fmt.Sprintf("(mkiface %d %s)", id, x.S))
		fg.checkTypeInv(xt, x.S, v.Pos())
		if isNodeType(v.Type()) {
			fg.pendSet(fg.valueOf(v), true) // a node built here
		}
		return
	}
	ref := fg.box(xt, x.S)
	fg.define(v, fmt.Sprintf("(mkiface %d %s)", id, ref))
	if isNodeType(v.Type()) {
		fg.pendSet(fg.valueOf(v), true)
	}
}

// box stores a non-pointer value behind a fresh reference.
func (fg *FuncGen) box(t types.Type, s string) string {
	ref := fg.alloc(t)
	fg.store(&Ptr{Kind: "obj", Ref: ref, T: t}, s)
	return ref
}

func (fg *FuncGen) typeAssert(v *ssa.TypeAssert) {
	g := fg.g
	x := fg.valueOf(v.X)
	at := v.AssertedType
	var ok, val string
	valSort := g.SortOf(at)
	if x.Sort == "Val" {
		probe := g.valCtor(at, "_")
		switch {
		case strings.HasPrefix(probe, "(VInt "):
			ok = fmt.Sprintf("(and ((_ is VInt) %s) (= (vkind %s) %d))", x.S, x.S, g.TypeID(at))
			val = "(vint " + x.S + ")"
		case probe != "":
			ctor := strings.Fields(probe[1:])[0]
			acc := map[string]string{"VBool": "vbool", "VStr": "vstr", "VF64": "vf64", "VF32": "vf32", "VDec": "vdec", "VJNum": "vjnum", "VArr": "varr", "VObj": "vobj"}[ctor]
			ok = "((_ is " + ctor + ") " + x.S + ")"
			val = "(" + acc + " " + x.S + ")"
		default:
			if _, isIface := at.Underlying().(*types.Interface); isIface {
				fg.unsupp("type assertion to interface %s", at)
				fg.declare(v)
				return
			}
			ok = fmt.Sprintf("(and ((_ is VOther) %s) (= (votype %s) %d))", x.S, x.S, g.TypeID(at))
			switch valSort {
			case "Int":
				val = "(voref " + x.S + ")"
			default:
				val = fg.unbox(at, "(voref "+x.S+")")
			}
		}
	} else if x.Sort == "Iface" {
		if _, isIface := at.Underlying().(*types.Interface); isIface {
			fg.unsupp("type assertion to interface %s", at)
			fg.declare(v)
			return
		}
		ok = fmt.Sprintf("(= (itype %s) %d)", x.S, g.TypeID(at))
		if _, isPtr := at.Underlying().(*types.Pointer); isPtr {
			val = "(iref " + x.S + ")"
		} else {
			val = fg.unbox(at, "(iref "+x.S+")")
		}
	} else {
		fg.unsupp("type assertion on sort %s", x.Sort)
		fg.declare(v)
		return
	}
	if v.CommaOk {
		okn := "v_" + v.Name() + "_ok"
		valn := "v_" + v.Name() + "_v"
		fg.emitDef("%s", "Bool", "%s", okn, ok)
		fg.emitDef("%s", "%s", "(ite %s %s %s)", valn, valSort, okn, val, g.Zero(at))
		fg.val[v] = []TTerm{{S: valn, Sort: valSort, T: at}, {S: okn, Sort: "Bool"}}
		if x.Sort == "Val" && fg.c != nil && fg.c.Measure != nil {
			fg.assumeValHeight(at, x.S, valn, okn)
		}
		if x.Sort == "Iface" {
			if _, isPtr := at.Underlying().(*types.Pointer); isPtr {
				fg.assume("(=> " + okn + " (> " + valn + " 0))")
				fg.assumeTypeInv(at, valn, okn)
				fg.assumeASTHeight(v.X.Type(), at, x.S, valn, okn)
			}
		}
		return
	}
	fg.obl("safe.assert", "", v.Pos(), safetyTags, ok, "type assertion holds")
	fg.define(v, val)
}

func (fg *FuncGen) unbox(t types.Type, ref string) string {
	save := fg.curReach
	defer func() { fg.curReach = save }()
	return fg.load(&Ptr{Kind: "obj", Ref: ref, T: t})
}

// ---------------------------------------------------------------------------
// maps

func (fg *FuncGen) mapKey(k TTerm) string {
	if k.Sort == "Str" {
		return "(skey " + k.S + ")"
	}
	return k.S
}

func (fg *FuncGen) lookup(v *ssa.Lookup) {
	g := fg.g
	x := fg.valueOf(v.X)
	i := fg.valueOf(v.Index)
	switch u := v.X.Type().Underlying().(type) {
	case *types.Map:
		vf, df, _ := g.MapFamilies(g.SortOf(u.Elem()))
		key := fg.mapKey(i)
		has := fmt.Sprintf("(select (select %s %s) %s)", fg.famIn(fg.st, df), x.S, key)
		val := fmt.Sprintf("(ite %s (select (select %s %s) %s) %s)", has, fg.famIn(fg.st, vf), x.S, key, g.Zero(u.Elem()))
		if v.CommaOk {
			okn := "v_" + v.Name() + "_ok"
			valn := "v_" + v.Name() + "_v"
			fg.emitDef("%s", "Bool", "%s", okn, has)
			fg.emitDef("%s", "%s", "%s", valn, g.SortOf(u.Elem()), val)
			fg.val[v] = []TTerm{{S: valn, Sort: g.SortOf(u.Elem()), T: u.Elem()}, {S: okn, Sort: "Bool"}}
			fg.assumeLoaded(fg.val[v][0], u.Elem(), &Ptr{Kind: "obj", Ref: x.S})
		} else {
			t := fg.define(v, val)
			fg.assumeLoaded(t, u.Elem(), &Ptr{Kind: "obj", Ref: x.S})
		}
	case *types.Basic: // string index
		fg.obl("safe.index", "", v.Pos(), safetyTags, fmt.Sprintf("(and (<= 0 %s) (< %s (gs.len %s)))", i.S, i.S, x.S), "string index in range")
		fg.define(v, "(gs.at "+x.S+" "+i.S+")")
	default:
		fg.unsupp("lookup on %s", v.X.Type())
		fg.declare(v)
	}
}

func (fg *FuncGen) mapUpdate(v *ssa.MapUpdate) {
	g := fg.g
	m := fg.valueOf(v.Map)
	k := fg.valueOf(v.Key)
	val := fg.valueOf(v.Value)
	mt := v.Map.Type().Underlying().(*types.Map)
	fg.obl("safe.nil", "", v.Pos(), safetyTags, "(not (= "+m.S+" 0))", "assignment to entry in non-nil map")
	if isNodeType(v.Value.Type()) {
		fg.pendSet(val, false)
	}
	fg.frameCheck(&Ptr{Kind: "obj", Ref: m.S}, v.Pos(), "map update")
	vf, df, cf := g.MapFamilies(g.SortOf(mt.Elem()))
	key := fg.mapKey(k)
	if k.Sort == "Str" {
		// every key of a string-keyed map is a whole piece of text (assumed again when a map is iterated)
		fg.obl("utf8", "", v.Pos(), []string{"C11"}, "(gs.aligned "+k.S+")", "map key starts and ends on code point boundaries of its text")
	}
	dcur, ccur, vcur := fg.famIn(fg.st, df), fg.famIn(fg.st, cf), fg.famIn(fg.st, vf)
	fg.setFam(cf, fmt.Sprintf("(store %s %s (ite (select (select %s %s) %s) (select %s %s) (+ (select %s %s) 1)))", ccur, m.S, dcur, m.S, key, ccur, m.S, ccur, m.S))
	fg.setFam(df, fmt.Sprintf("(store %s %s (store (select %s %s) %s true))", dcur, m.S, dcur, m.S, key))
	fg.setFam(vf, fmt.Sprintf("(store %s %s (store (select %s %s) %s %s))", vcur, m.S, vcur, m.S, key, val.S))
}

func (fg *FuncGen) rangeInit(v *ssa.Range) {
	g := fg.g
	x := fg.valueOf(v.X)
	it := &iterInfo{m: x}
	id := smtIdent(fg.key) + "_" + v.Name()
	switch u := v.X.Type().Underlying().(type) {
	case *types.Map:
		it.kind = "map"
		it.mapT = u
		it.seenFam = g.Family("IT_seen_"+id, "(Array Int Bool)")
		it.nFam = g.Family("IT_n_"+id, "Int")
		fg.setFam(it.seenFam, "((as const (Array Int Bool)) false)")
		fg.setFam(it.nFam, "0")
	case *types.Basic:
		it.kind = "string"
		it.nFam = g.Family("IT_pos_"+id, "Int")
		fg.setFam(it.nFam, "0")
	default:
		fg.unsupp("range over %s", v.X.Type())
	}
	fg.iterState[v] = it
	fg.val[v] = []TTerm{{S: "0", Sort: "Int"}}
}

func (fg *FuncGen) next(v *ssa.Next) {
	g := fg.g
	it := fg.iterState[v.Iter]
	if it == nil {
		fg.unsupp("next on unknown iterator")
		return
	}
	base := "v_" + v.Name()
	switch it.kind {
	case "map":
		vf, df, cf := g.MapFamilies(g.SortOf(it.mapT.Elem()))
		n := fg.famIn(fg.st, it.nFam)
		seen := fg.famIn(fg.st, it.seenFam)
		dom := fmt.Sprintf("(select %s %s)", fg.famIn(fg.st, df), it.m.S)
		card := fmt.Sprintf("(select %s %s)", fg.famIn(fg.st, cf), it.m.S)
		fg.emit("(declare-const %s_ok Bool)", base)
		fg.emit("(declare-const %s_k Str)", base)
		fg.assume("(gs.wf " + base + "_k)")
		fg.assume("(gs.aligned " + base + "_k)")
		fg.emitDef("%s_v", "%s", "(select (select %s %s) (skey %s_k))", base, g.SortOf(it.mapT.Elem()), fg.famIn(fg.st, vf), it.m.S, base)
		// semantics of map iteration: an arbitrary key not yet visited; done exactly when all keys were visited
		fg.assume(fmt.Sprintf("(and (<= 0 %s) (<= %s %s))", n, n, card))
		fg.assume(fmt.Sprintf("(= %s_ok (< %s %s))", base, n, card))
		fg.assume(fmt.Sprintf("(=> %s_ok (and (select %s (skey %s_k)) (not (select %s (skey %s_k)))))", base, dom, base, seen, base))
		fg.assume(fmt.Sprintf("(=> (not %s_ok) (forall ((q Int)) (! (=> (select %s q) (select %s q)) :pattern ((select %s q)))))", base, dom, seen, dom))
		fg.assume(fmt.Sprintf("(forall ((q Int)) (! (=> (select %s q) (select %s q)) :pattern ((select %s q))))", seen, dom, seen))
		fg.val[v] = []TTerm{{S: base + "_ok", Sort: "Bool"}, {S: base + "_k", Sort: "Str", T: it.mapT.Key()}, {S: base + "_v", Sort: g.SortOf(it.mapT.Elem()), T: it.mapT.Elem()}}
		fg.assumeLoaded(fg.val[v][2], it.mapT.Elem(), &Ptr{Kind: "obj", Ref: it.m.S})
		fg.setFam(it.seenFam, fmt.Sprintf("(ite %s_ok (store %s (skey %s_k) true) %s)", base, seen, base, seen))
		fg.setFam(it.nFam, fmt.Sprintf("(ite %s_ok (+ %s 1) %s)", base, n, n))
	case "string":
		pos := fg.famIn(fg.st, it.nFam)
		s := it.m.S
		fg.emitDef("%s_ok", "Bool", "(< %s (gs.len %s))", base, pos, s)
		fg.emitDef("%s_k", "Int", "%s", base, pos)
		fg.emit("(declare-const %s_v Int)", base)
		fg.emit("(declare-const %s_sz Int)", base)
		fg.assume(fmt.Sprintf("(and (<= 0 %s) (<= %s (gs.len %s)))", pos, pos, s))
		fg.assume(fmt.Sprintf("(decode.post (gs.sub %s %s (gs.len %s)) %s_v %s_sz)", s, pos, s, base, base))
		fg.val[v] = []TTerm{{S: base + "_ok", Sort: "Bool"}, {S: base + "_k", Sort: "Int"}, {S: base + "_v", Sort: "Int"}}
		fg.setFam(it.nFam, fmt.Sprintf("(ite %s_ok (+ %s %s_sz) %s)", base, pos, base, pos))
	}
}

// ---------------------------------------------------------------------------
// type invariants (struct invariants established where a value escapes into an interface)

func (fg *FuncGen) typeInvFor(t types.Type) *TypeInv {
	if p, ok := t.Underlying().(*types.Pointer); ok {
		t = p.Elem()
	}
	n := structName(t)
	for _, ti := range fg.g.Spec.TypeInvs {
		if ti.Type == n {
			return ti
		}
	}
	return nil
}

func (fg *FuncGen) typeInvTerm(ti *TypeInv, t types.Type, ref string) string {
	env := fg.baseEnv(fg.st, fg.st)
	env.vars["self"] = TTerm{S: ref, Sort: "Int", T: t}
	r := env.Tr(ti.E)
	return r.S
}

func (fg *FuncGen) checkTypeInv(t types.Type, ref string, pos token.Pos) {
	ti := fg.typeInvFor(t)
	if ti == nil {
		return
	}
	fg.obl("typeinv", "", pos, pick(ti.Tags, safetyTags), fg.typeInvTerm(ti, t, ref), "type invariant: "+ti.Text)
}

func (fg *FuncGen) assumeTypeInv(t types.Type, ref string, cond string) {
	ti := fg.typeInvFor(t)
	if ti == nil {
		return
	}
	_ = cond
	fg.assume("(=> " + cond + " " + fg.typeInvTerm(ti, t, ref) + ")")
}

// carrierObligations (C18): a value the library itself turns into an `any` is a JSON carrier (bool, string, a
// number type, []any, map[string]any), and a decimal or float it creates is finite provided every value it
// received is (c18.ih).
func (fg *FuncGen) carrierObligations(v *ssa.MakeInterface, xt types.Type, x TTerm) {
	if !strings.Contains(fg.key, "/internal/evaluator.") {
		return
	}
	tags := []string{"C18"}
	ok := false
	switch u := types.Unalias(xt).Underlying().(type) {
	case *types.Basic:
		ok = u.Info()&(types.IsBoolean|types.IsString|types.IsInteger|types.IsFloat) != 0
	case *types.Slice:
		ok = isAny(u.Elem())
	case *types.Map:
		if b, isb := u.Key().Underlying().(*types.Basic); isb && b.Kind() == types.String {
			ok = isAny(u.Elem())
		}
	}
	if isNamed(xt, decPkg, "Decimal") || isNamed(xt, "encoding/json", "Number") {
		ok = true
	}
	goal := "false"
	if ok {
		goal = "true"
	}
	fg.obl("carrier", "", v.Pos(), tags, goal, "a value turned into `any` here has a JSON carrier type ("+xt.String()+")")
	switch {
	case isNamed(xt, decPkg, "Decimal"):
		fg.obl("finite", "", v.Pos(), tags, "(=> c18.ih (dec.isfin "+x.S+"))", "a decimal result is finite when every value received is")
	case x.Sort == "F64":
		fg.obl("finite", "", v.Pos(), tags, "(=> c18.ih (and (not (f64.isnan "+x.S+")) (not (f64.isinf "+x.S+"))))", "a float64 result is finite when every value received is")
	}
}

// assumeASTHeight (assumption A8, listed in the evidence): the AST is a finite tree, so there is a height function
// on nodes under which every node stored in a field of a node lies strictly below it.  Assumed where a parser.Node
// is found to be a *T: for each field of T that holds a Node, a []Node or a map[string]Node.
func (fg *FuncGen) assumeASTHeight(ifaceT, at types.Type, iface, ref, cond string) {
	if !isNodeType(ifaceT) || !heightAssumptions {
		return
	}
	pt, ok := at.Underlying().(*types.Pointer)
	if !ok {
		return
	}
	st, ok := pt.Elem().Underlying().(*types.Struct)
	if !ok {
		return
	}
	g := fg.g
	g.usedASTHeight = true
	for i := 0; i < st.NumFields(); i++ {
		ft := st.Field(i).Type()
		fld := "(select " + fg.famIn(fg.st, g.FieldFamily(pt.Elem(), i)) + " " + ref + ")"
		switch u := ft.Underlying().(type) {
		case *types.Interface:
			if isNodeType(ft) {
				fg.assume(fmt.Sprintf("(=> %s (< (nheight %s) (nheight %s)))", cond, fld, iface))
			}
		case *types.Slice:
			if isNodeType(u.Elem()) {
				el := fmt.Sprintf("(%s %s %s k!h)", gatName("Iface"), fg.famIn(fg.st, g.SeqFamily("Iface")), fld)
				fg.assume(fmt.Sprintf("(=> %s (forall ((k!h Int)) (! (=> (and (<= 0 k!h) (< k!h (slen %s))) (< (nheight %s) (nheight %s))) :pattern (%s))))", cond, fld, el, iface, el))
			}
		case *types.Array:
			if isNodeType(u.Elem()) {
				for k := int64(0); k < u.Len() && k < 16; k++ {
					fg.assume(fmt.Sprintf("(=> %s (< (nheight (select %s %d)) (nheight %s)))", cond, fld, k, iface))
				}
			}
		case *types.Map:
			if isNodeType(u.Elem()) {
				vf, df, _ := g.MapFamilies("Iface")
				el := fmt.Sprintf("(select (select %s %s) k!h)", fg.famIn(fg.st, vf), fld)
				fg.assume(fmt.Sprintf("(=> %s (forall ((k!h Int)) (! (=> (select (select %s %s) k!h) (< (nheight %s) (nheight %s))) :pattern (%s))))", cond, fg.famIn(fg.st, df), fld, el, iface, el))
			}
		}
	}
}

// assumeValHeight (assumption, listed in the evidence; the properties quantify over trees of values): a data value
// is a finite tree, so the elements of an array and the members of an object lie strictly below it under a height
// function.  Assumed where an `any` is found to be a []any or a map[string]any, in functions under a `measure`.
func (fg *FuncGen) assumeValHeight(at types.Type, val, inner, cond string) {
	if !heightAssumptions {
		return
	}
	g := fg.g
	switch u := at.Underlying().(type) {
	case *types.Slice:
		if isAny(u.Elem()) {
			el := fmt.Sprintf("(%s %s %s k!h)", gatName("Val"), fg.famIn(fg.st, g.SeqFamily("Val")), inner)
			fg.assume(fmt.Sprintf("(=> %s (forall ((k!h Int)) (! (=> (and (<= 0 k!h) (< k!h (slen %s))) (< (vheight %s) (vheight %s))) :pattern (%s))))", cond, inner, el, val, el))
		}
	case *types.Map:
		if isAny(u.Elem()) {
			vf, df, _ := g.MapFamilies("Val")
			el := fmt.Sprintf("(select (select %s %s) k!h)", fg.famIn(fg.st, vf), inner)
			fg.assume(fmt.Sprintf("(=> %s (forall ((k!h Int)) (! (=> (select (select %s %s) k!h) (< (vheight %s) (vheight %s))) :pattern (%s))))", cond, fg.famIn(fg.st, df), inner, el, val, el))
		}
	}
}

// heightAssumptions: the finite-tree assumptions are made only in the run that checks termination (C09); the other
// properties are proved without them
var heightAssumptions bool

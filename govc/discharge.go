package main

import (
	"bytes"
	"context"
	"fmt"
	"os"
	"os/exec"
	"path/filepath"
	"strings"
	"sync"
	"time"
)

type Result struct {
	O       *Obligation
	Status  string // proved failed unknown error
	Solver  string
	Seconds float64
	Model   string
	Output  string
	confirmed  bool
	replayInfo map[string]interface{}
}

type Solver struct {
	Name string
	Cmd  []string
	Push bool // keep the (push)/(pop) around the goal: z3 then runs its incremental core, which decides some goals the one-shot tactic does not (and the other way round)
}

var solvers = []Solver{
	{"z3-new", []string{"z3-new", "-smt2"}, false},
	{"z3-new-inc", []string{"z3-new", "-smt2"}, true},
	{"z3", []string{"z3", "-smt2"}, true},
	{"cvc5", []string{"cvc5", "--lang=smt2"}, false},
}

type preSection struct {
	keys []string
	text string
}

// Pre is the script prologue; quantified axioms are grouped in optional sections that are
// included only when the function under proof mentions one of the section's symbols
// (dropping an axiom only weakens what is assumed).
type Pre struct {
	once      sync.Once
	ghostDefs map[string]string
	ghostText string
	core     string
	sections []preSection
	tail     string
}

// usedGhostText: the definitions of the ghost functions a script mentions (transitively); the axiom sections their
// bodies need must be included as well (numDec mentions dec.ofint although the function's own script does not).
func (p *Pre) usedGhostText(script string) string {
	p.once.Do(func() {
		p.ghostDefs = map[string]string{}
		for _, l := range strings.Split(p.ghostText, "\n") {
			for _, kw := range []string{"(define-fun ", "(define-fun-rec ", "(declare-fun "} {
				if strings.HasPrefix(l, kw) {
					rest := l[len(kw):]
					if i := strings.IndexAny(rest, " ("); i > 0 {
						p.ghostDefs[rest[:i]] += l + "\n"
					}
				}
			}
		}
	})
	used := map[string]bool{}
	var out strings.Builder
	frontier := script
	for round := 0; round < 4; round++ {
		var next strings.Builder
		for name, text := range p.ghostDefs {
			if !used[name] && strings.Contains(frontier, "("+name+" ") {
				used[name] = true
				next.WriteString(text)
			}
		}
		if next.Len() == 0 {
			break
		}
		out.WriteString(next.String())
		frontier = next.String()
	}
	return out.String()
}

func (p *Pre) For(script string) string {
	var b strings.Builder
	b.WriteString(p.core)
	ghosts := p.usedGhostText(script)
	for _, s := range p.sections {
		for _, k := range s.keys {
			if strings.Contains(script, k) || strings.Contains(ghosts, k) {
				b.WriteString(s.text)
				break
			}
		}
	}
	// per-constant blocks of the tail are included only for constants the script mentions
	tail := p.tail
	for {
		i := strings.Index(tail, "; @const ")
		if i < 0 {
			b.WriteString(tail)
			break
		}
		b.WriteString(tail[:i])
		rest := tail[i:]
		nl := strings.Index(rest, "\n")
		marker := strings.TrimSpace(rest[len("; @const "):nl])
		end := strings.Index(rest, "; @endconst\n")
		if strings.Contains(script, marker+" ") || strings.Contains(p.ghostText, marker+" ") {
			b.WriteString(rest[nl+1 : end])
		}
		tail = rest[end+len("; @endconst\n"):]
	}
	out := b.String()
	// a lemma's own proof script must not contain the lemma (nor the lemmas after it) as an axiom
	if i := strings.Index(script, "; @provinglemma "); i >= 0 {
		limit := 0
		fmt.Sscan(script[i+len("; @provinglemma "):], &limit)
		var kept strings.Builder
		for _, l := range strings.SplitAfter(out, "\n") {
			if j := strings.Index(l, "; @lemma "); j >= 0 {
				k := 0
				fmt.Sscan(l[j+len("; @lemma "):], &k)
				if limit > 0 && k >= limit {
					continue
				}
			}
			kept.WriteString(l)
		}
		out = kept.String()
	}
	return out
}

func splitForms(text string) []string {
	var forms []string
	depth := 0
	start := -1
	inComment := false
	for i := 0; i < len(text); i++ {
		c := text[i]
		if inComment {
			if c == '\n' {
				inComment = false
				if depth == 0 && start >= 0 {
					forms = append(forms, text[start:i+1])
					start = -1
				}
			}
			continue
		}
		switch c {
		case ';':
			inComment = true
			if depth == 0 && start < 0 {
				start = i
			}
		case '(':
			if depth == 0 && start < 0 {
				start = i
			}
			depth++
		case ')':
			depth--
			if depth == 0 {
				forms = append(forms, text[start:i+1]+"\n")
				start = -1
			}
		}
	}
	return forms
}

func (g *Gen) Preamble() (*Pre, error) {
	p := &Pre{}
	var core strings.Builder
	core.WriteString("(set-option :produce-models true)\n(set-logic ALL)\n")
	secIdx := map[string]int{}
	cur := "core"
	for _, f := range splitForms(preludeText + "\n" + extraPrelude) {
		t := strings.TrimSpace(f)
		if strings.HasPrefix(t, "; @section") {
			fs := strings.Fields(t)[2:]
			cur = fs[0]
			if cur != "core" {
				if _, ok := secIdx[cur]; !ok {
					secIdx[cur] = len(p.sections)
					p.sections = append(p.sections, preSection{})
				}
				sec := &p.sections[secIdx[cur]]
				sec.keys = append(sec.keys, fs[1:]...)
			}
			continue
		}
		if strings.HasPrefix(t, ";") {
			continue
		}
		if cur != "core" && strings.HasPrefix(t, "(assert") {
			sec := &p.sections[secIdx[cur]]
			sec.text += f
			continue
		}
		core.WriteString(f)
	}
	p.core = core.String()
	var b strings.Builder
	g.EmitDecls(&b)
	for _, f := range g.famOrder {
		fmt.Fprintf(&b, "(declare-const %s!0 %s)\n", f, g.families[f])
		// the nil map has no entries
		if strings.HasPrefix(f, "MD_") {
			fmt.Fprintf(&b, "(assert (= (select %s!0 0) ((as const (Array Int Bool)) false)))\n", f)
		}
		if strings.HasPrefix(f, "MC_") {
			fmt.Fprintf(&b, "(assert (= (select %s!0 0) 0))\n", f)
		}
	}
	var gb strings.Builder
	if err := g.EmitGhosts(&gb); err != nil {
		return nil, err
	}
	p.ghostText = gb.String()
	// constants interned while translating the ghost definitions must be declared before them
	var b2 strings.Builder
	g.EmitDecls(&b2)
	b.Reset()
	b.WriteString(b2.String())
	for _, f := range g.famOrder {
		fmt.Fprintf(&b, "(declare-const %s!0 %s)\n", f, g.families[f])
		if strings.HasPrefix(f, "MD_") {
			fmt.Fprintf(&b, "(assert (= (select %s!0 0) ((as const (Array Int Bool)) false)))\n", f)
		}
		if strings.HasPrefix(f, "MC_") {
			fmt.Fprintf(&b, "(assert (= (select %s!0 0) 0))\n", f)
		}
	}
	b.WriteString(p.ghostText)
	p.tail = b.String()
	return p, nil
}

func oblScript(o *Obligation, withModel bool) string {
	var b strings.Builder
	b.WriteString("(push 1)\n")
	for _, l := range o.Local {
		b.WriteString(l + "\n")
	}
	fmt.Fprintf(&b, "(assert (not (=> %s %s))) ; %s\n(check-sat)\n", o.Guard, o.Goal, o.Name)
	if withModel && len(o.Params) > 0 {
		fmt.Fprintf(&b, "(get-value (%s))\n", strings.Join(o.Params, " "))
	}
	b.WriteString("(pop 1)\n")
	return b.String()
}

// runSolver runs one script and returns the answers (one per check-sat) plus the raw output.
func runSolver(ctx context.Context, s Solver, script string, perQueryMs int) ([]string, string, error) {
	dir, err := os.MkdirTemp(scratchDir(), "govc")
	if err != nil {
		return nil, "", err
	}
	defer os.RemoveAll(dir)
	file := filepath.Join(dir, "q.smt2")
	if !s.Push {
		script = strings.ReplaceAll(strings.ReplaceAll(script, "(push 1)\n", ""), "(pop 1)\n", "")
	}
	if err := os.WriteFile(file, []byte(script), 0o644); err != nil {
		return nil, "", err
	}
	args := append([]string{}, s.Cmd[1:]...)
	switch s.Name {
	case "z3", "z3-new", "z3-new-inc":
		args = append(args, fmt.Sprintf("-t:%d", perQueryMs))
	case "cvc5":
		args = append(args, fmt.Sprintf("--tlimit-per=%d", perQueryMs))
	}
	args = append(args, file)
	cmd := exec.CommandContext(ctx, s.Cmd[0], args...)
	var out bytes.Buffer
	cmd.Stdout = &out
	cmd.Stderr = &out
	_ = cmd.Run()
	var answers []string
	for _, l := range strings.Split(out.String(), "\n") {
		l = strings.TrimSpace(l)
		switch l {
		case "sat", "unsat", "unknown", "timeout":
			answers = append(answers, l)
		}
	}
	return answers, out.String(), nil
}

func scratchDir() string {
	d := os.Getenv("VERIF_SCRATCH")
	if d == "" {
		d = filepath.Join(os.TempDir(), "govc-scratch")
	}
	os.MkdirAll(d, 0o755)
	return d
}

type job struct {
	fg   *FuncGen
	blk  int
	via  int
	obls []*Obligation
}

// Discharge proves the obligations; quick per-function batches first, then a portfolio on what is left.
func Discharge(pre *Pre, fgs []*FuncGen, filter func(*Obligation) bool, timeoutMs int, workers int, confirm bool) []*Result {
	var jobs []job
	// one obligation per solver run: the verdict on an obligation must not depend on which other
	// obligations happen to share its process (instantiations made for a neighbour can leak)
	chunk := 1
	if n := os.Getenv("GOVC_CHUNK"); n != "" {
		fmt.Sscan(n, &chunk)
	}
	for _, fg := range fgs {
		var sel []*Obligation
		for _, o := range fg.obls {
			if filter(o) {
				sel = append(sel, o)
			}
		}
		// obligations of the same block share one slice of the function
		small := len(fg.order) <= 12
		groups := map[[2]int][]*Obligation{}
		var blks [][2]int
		for _, o := range sel {
			b := [2]int{o.Block, o.Via}
			if small {
				b = [2]int{-1, -1}
			}
			if _, ok := groups[b]; !ok {
				blks = append(blks, b)
			}
			groups[b] = append(groups[b], o)
		}
		for _, blk := range blks {
			grp := groups[blk]
			for i := 0; i < len(grp); i += chunk {
				j := i + chunk
				if j > len(grp) {
					j = len(grp)
				}
				jobs = append(jobs, job{fg, blk[0], blk[1], grp[i:j]})
			}
		}
	}
	results := map[*Obligation]*Result{}
	var mu sync.Mutex
	var wg sync.WaitGroup
	sem := make(chan struct{}, workers)
	for _, jb := range jobs {
		wg.Add(1)
		sem <- struct{}{}
		go func(jb job) {
			defer wg.Done()
			defer func() { <-sem }()
			var b strings.Builder
			blk := jb.blk
			if blk == -2 {
				blk = -3 // prologue only
			}
			b.WriteString(jb.fg.ScriptVia(blk, jb.via))
			for _, o := range jb.obls {
				b.WriteString(oblScript(o, false))
			}
			full := pre.For(b.String()) + b.String()
			if len(jb.obls) > 0 && jb.obls[0].Kind == "cover" {
				full = pre.For(jb.fg.ScriptVia(-1, -1)+b.String()) + b.String()
			}
			b.Reset()
			b.WriteString(full)
			start := time.Now()
			ctx, cancel := context.WithTimeout(context.Background(), time.Duration(timeoutMs*(len(jb.obls)+2))*time.Millisecond)
			ans, raw, _ := runSolver(ctx, solvers[0], b.String(), timeoutMs)
			cancel()
			el := time.Since(start).Seconds()
			mu.Lock()
			for i, o := range jb.obls {
				r := &Result{O: o, Solver: solvers[0].Name, Seconds: el / float64(len(jb.obls))}
				if i < len(ans) {
					r.Status = statusOf(ans[i], o.Expect)
				} else {
					r.Status = "error"
					r.Output = tail(raw, 2000)
				}
				results[o] = r
			}
			mu.Unlock()
		}(jb)
	}
	wg.Wait()
	// second round: individually, all solvers raced
	var rest []*Obligation
	byFg := map[*Obligation]*FuncGen{}
	for _, jb := range jobs {
		for _, o := range jb.obls {
			byFg[o] = jb.fg
			if results[o].Status != "proved" || confirm || o.Kind == "cover" {
				rest = append(rest, o)
			}
		}
	}
	for _, o := range rest {
		wg.Add(1)
		sem <- struct{}{}
		go func(o *Obligation) {
			defer wg.Done()
			defer func() { <-sem }()
			fg := byFg[o]
			blk := o.Block
			if blk == -2 {
				blk = -3
			}
			via := o.Via
			if len(fg.order) <= 12 {
				via = -1
			}
			script := fg.ScriptVia(blk, via) + oblScript(o, true)
			if o.Kind == "cover" {
				// a vacuity cover is judged against every axiom section that any obligation of the function can see
				script = pre.For(fg.ScriptVia(-1, -1)+script) + script
			} else {
				script = pre.For(script) + script
			}
			if d := os.Getenv("GOVC_KEEP"); d != "" {
				os.MkdirAll(d, 0o755)
				os.WriteFile(filepath.Join(d, strings.NewReplacer("/", "_", "#", "_", "@", "_").Replace(o.Name)+".smt2"), []byte(script), 0o644)
			}
			mu.Lock()
			first := results[o] // other workers of this round write the map
			mu.Unlock()
			r := raceSolvers(script, o, timeoutMs*5, first, confirm)
			mu.Lock()
			results[o] = r
			mu.Unlock()
		}(o)
	}
	wg.Wait()
	// third round: a merged postcondition that was not proved is re-checked clause by clause, so that the
	// report names the clause and clauses that do not belong to the selected property do not count
	partsOf := map[*Obligation][]*Obligation{}
	for _, o := range rest {
		if len(o.Parts) == 0 || results[o].Status == "proved" {
			continue
		}
		for _, po := range o.Parts {
			if !filter(po) {
				continue
			}
			partsOf[o] = append(partsOf[o], po)
			wg.Add(1)
			sem <- struct{}{}
			go func(o, po *Obligation) {
				defer wg.Done()
				defer func() { <-sem }()
				fg := byFg[o]
				via := o.Via
				if len(fg.order) <= 12 {
					via = -1
				}
				script := fg.ScriptVia(o.Block, via) + oblScript(po, true)
				script = pre.For(script) + script
				if d := os.Getenv("GOVC_KEEP"); d != "" {
					os.WriteFile(filepath.Join(d, strings.NewReplacer("/", "_", "#", "_", "@", "_").Replace(po.Name)+".smt2"), []byte(script), 0o644)
				}
				r := raceSolvers(script, po, timeoutMs*5, nil, false)
				mu.Lock()
				results[po] = r
				mu.Unlock()
			}(o, po)
		}
	}
	wg.Wait()
	var out []*Result
	for _, jb := range jobs {
		for _, o := range jb.obls {
			if ps, ok := partsOf[o]; ok {
				all := true
				for _, po := range ps {
					if results[po].Status != "proved" {
						all = false
						out = append(out, results[po])
					}
				}
				if all {
					// every clause of the selected property holds on its own
					r := results[o]
					r.Status, r.Solver = "proved", "portfolio(per clause)"
					out = append(out, r)
				}
				continue
			}
			out = append(out, results[o])
		}
	}
	return out
}

func statusOf(ans, expect string) string {
	if expect == "sat" {
		// vacuity guard: only a refutation of the assumptions is a failure
		if ans == "unsat" {
			return "failed"
		}
		return "proved"
	}
	switch {
	case ans == expect:
		return "proved"
	case ans == "sat" || ans == "unsat":
		return "failed"
	}
	return "unknown"
}

func raceSolvers(script string, o *Obligation, timeoutMs int, first *Result, confirm bool) *Result {
	type res struct {
		s   Solver
		ans string
		raw string
		sec float64
	}
	if o.Kind == "cover" && timeoutMs > 4000 {
		timeoutMs = 4000 // a vacuity cover asks every solver; none of them gets longer than this
	}
	ctx, cancel := context.WithTimeout(context.Background(), time.Duration(timeoutMs+5000)*time.Millisecond)
	defer cancel()
	ch := make(chan res, len(solvers))
	for _, s := range solvers {
		go func(s Solver) {
			start := time.Now()
			ans, raw, _ := runSolver(ctx, s, script, timeoutMs)
			a := "unknown"
			if len(ans) > 0 {
				a = ans[0]
			}
			ch <- res{s, a, raw, time.Since(start).Seconds()}
		}(s)
	}
	best := &Result{O: o, Status: "unknown", Solver: "portfolio"}
	if o.Kind == "cover" {
		// vacuity guard: every solver is asked; a refutation by any of them is a failure
		best.Status = "proved"
		for range solvers {
			r := <-ch
			if r.ans == "unsat" {
				return &Result{O: o, Status: "failed", Solver: r.s.Name, Seconds: r.sec, Output: "the assumptions at function entry are contradictory (" + r.s.Name + " answered unsat)"}
			}
			if r.sec > best.Seconds {
				best.Seconds = r.sec
			}
		}
		return best
	}
	proved := 0
	families := map[string]bool{}
	var provers []string
	var confirmDeadline <-chan time.Time
	for range solvers {
		var r res
		select {
		case r = <-ch:
		case <-confirmDeadline:
			// one solver proved the goal; the second opinion did not arrive within the grace period
			best.Solver = strings.Join(provers, "+")
			return best
		}
		st := statusOf(r.ans, o.Expect)
		switch st {
		case "proved":
			fam := strings.TrimSuffix(r.s.Name, "-inc")
			if !families[fam] {
				families[fam] = true
				proved++ // a second opinion counts only when it comes from another solver binary
			}
			provers = append(provers, r.s.Name)
			if best.Status != "proved" {
				best = &Result{O: o, Status: "proved", Solver: r.s.Name, Seconds: r.sec}
			}
			if !confirm || proved >= 2 {
				best.Solver = strings.Join(provers, "+")
				return best
			}
			if confirmDeadline == nil {
				confirmDeadline = time.After(6 * time.Second)
			}
		case "failed":
			if best.Status == "unknown" {
				best = &Result{O: o, Status: "failed", Solver: r.s.Name, Seconds: r.sec, Model: extractModel(r.raw), Output: tail(r.raw, 4000)}
			}
		default:
			if best.Status == "unknown" {
				best.Output = tail(r.raw, 1000)
				best.Seconds = r.sec
			}
		}
	}
	if best.Status == "proved" {
		best.Solver = strings.Join(provers, "+")
	}
	return best
}

func extractModel(raw string) string {
	i := strings.Index(raw, "sat\n")
	if i < 0 {
		return ""
	}
	return strings.TrimSpace(raw[i+4:])
}

func tail(s string, n int) string {
	if len(s) > n {
		return s[len(s)-n:]
	}
	return s
}

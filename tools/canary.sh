#!/bin/sh
# Canary for the vacuity guard: rebuilds govc in a scratch directory with the prelude axiom that was once
# contradictory (the bound on gs.units stated for ill-formed string windows too) and expects the check of a
# function that uses it to report ENGINE-FAULT.  Exit 0 iff the guard fires.  Nothing under /verif is changed.
set -e
d=/var/tmp/scr/govc-canary.$$
mkdir -p /var/tmp/scr && rm -rf $d && cp -r /verif/govc $d
python3 - "$d/prelude.smt2" <<'PY'
import sys
p=sys.argv[1]; s=open(p).read()
good="(assert (forall ((s Str)) (! (=> (gs.wf s) (and (<= 0 (gs.units s)) (<= (gs.units s) (gs.len s)) (=> (gs.aligned s) (= (gs.units s) (gs.runes s))))) :pattern ((gs.units s)))))"
bad="(assert (forall ((s Str)) (! (and (<= 0 (gs.units s)) (<= (gs.units s) (gs.len s)) (=> (gs.aligned s) (= (gs.units s) (gs.runes s)))) :pattern ((gs.units s)))))"
assert good in s
open(p,'w').write(s.replace(good,bad))
PY
(cd $d && GOFLAGS=-mod=vendor GOPROXY=off GOSUMDB=off GOTOOLCHAIN=local PATH=/opt/veriftools/go1.26.8/bin:$PATH go build -o $d/govc.bad .)
out=$(cd /verif && GOVC_NO_REPLAY=1 timeout 900 $d/govc.bad check -func evaluator.padRight 2>&1 || true)
rm -rf $d
echo "$out" | grep "^ENGINE-FAULT" && { echo "canary: vacuity guard fired"; exit 0; }
echo "canary: the contradictory axiom was NOT detected"; exit 1

#!/bin/sh
# Must-fail corpus: every seeded change under /verif/seeded must make the check of its property report a
# violation that is not a known finding.  Works on scratch copies of /repo's working tree (removed
# afterwards); /repo itself is not touched.  Exit 0 iff every seed is detected.
# usage: tools/selftest.sh [seed-dir ...]     (default: all)
cd /verif || exit 2
seeds="$@"
[ -z "$seeds" ] && seeds=$(ls -d seeded/*/ | sed 's#/$##')
mkdir -p /var/tmp/scr
miss=0
for d in $seeds; do
  out=/var/tmp/scr/selftest.$(basename $d).out
  tools/run_seeded_copy.sh $d > $out 2>&1
  n=$(grep -c '^VIOLATION' $out)
  if [ "$n" -gt 0 ]; then
    echo "DETECTED $d ($n obligations; first: $(grep '^VIOLATION' $out | head -1 | sed 's/.*obligation=//'))"
  else
    echo "MISSED   $d"; miss=$((miss+1))
  fi
done
echo "selftest: $miss missed"
[ $miss -eq 0 ]

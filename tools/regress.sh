#!/bin/sh
# runs every claimed check on the unchanged tree and prints one line per property
cd /verif
for p in $(python3 -c "import json;print(' '.join(c['property_id'] for c in json.load(open('MANIFEST.json'))['checks']))"); do
  bin/check $p > /var/tmp/scr/out.$p 2>&1; rc=$?
  echo "$p exit=$rc $(grep '^property=' /var/tmp/scr/out.$p) $(grep -c '^VIOLATION' /var/tmp/scr/out.$p) violations"
done

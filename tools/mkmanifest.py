#!/usr/bin/env python3
# Regenerates /verif/MANIFEST.json from the table below (claimed properties and their honest scope).
import json, sys
props = [json.loads(l) for l in open('/verif/properties.jsonl')]
ids = [p['id'] for p in props]
TRUST = ("go/types + go/ssa (x/tools v0.50.0) as the meaning of the Go source; the govc translation of the SSA subset G0; "
         "z3 5.1 / z3 4.8.12 / cvc5 1.0.3; every contract marked `trusted` in /verif/contracts/ext.gvc (Go standard library and "
         "decimal128 v1.4.0) is an assumption; `defines` clauses are definitional (ghost token stream, graph of evaluate); int is 64 bits.")
claimed = {
 'C01': ("Contracts on the real functions, discharged by SMT for all inputs: index/slice/sliceStep/field return null on wrong types and the "
         "specified elements otherwise; projectArray, filter, filterAndProjectArray, pruneArray are proved to keep exactly the non-null (resp. truthy) "
         "results in order (call-log ghost arrays, counting functions); comparison operators; precedence table; parser path contracts (token stream ghost). "
         "Per-case contracts of evaluate (one clause per node type, existential over the graph relation isEv of evaluate and the graph relations ret_f of the helpers): each of the ~105 cases "
         "evaluates exactly the named children in the stated context and scope and returns what the named helper returns for them in that argument order; pipe, and/or/not, ==/!=, multi-select list/hash (child and current forms, "
         "null child gives null), literals, current/root, let and variable reference are stated directly. Not covered: flatten/flattenAndProjectArray/projectObject functional clauses, "
         "multi-selects on a null current node (unpinned by the property), wildcard-chain parsing.",
         "contracts + VC generation over go/ssa + SMT (z3/cvc5)"),
 'C02': ("Proved: toInt (integer coercion: ok iff the value is an integer in int range, for all 14 numeric kinds plus decimal and json.Number), toNumber, "
         "typeName, toArray, mapArray, contains; parser arity helpers (every helper ends on `)`, zero arguments is an arity error, name -> node-type table of parser.function). "
         "string builtins pad_*/split/find_*/replace with count: type and value errors and code-point results; every function node of evaluate passes its evaluated arguments to its helper in order; arity faults are raised exactly at `)`/`,` separators; "
         "lower/upper/trim*/starts_with/ends_with/replace return exactly the package-strings function of their arguments and raise invalid-type for non-strings; keys/values/items/object wildcard return one element per member (keys: each a member name), "
         "from_items accepts exactly arrays of [string, value] pairs, reverse reverses arrays element-wise, to_string is the identity on strings, sort/sort_by/max/min type errors, sum/avg folds and type errors. "
         "find_first/find_last with start and end: with a start at or below 0 and an end at or beyond the code-point count the call is exactly the whole-string search (offsets are code-point offsets: rune-table loop invariants), argument faults are reported whatever the start is (two genuine defects found and repaired here). zip evaluates every argument to an array and the i-th tuple holds the i-th element of each argument, in argument order; the result is no longer than any argument. sort returns a rearrangement of its argument (every element of either occurs in the other, equal lengths) that ascends under code-point order (strings) or decimal value (numbers) - the comparators' values are proved, slices.SortFunc is trusted to permute and to order under a strict weak order. Not covered: results of find_* for other windows, split/join beyond counts, types and code-point arithmetic; merge/not_null cases of evaluate.",
         "contracts + VC generation over go/ssa + SMT"),
 'C04': ("Proved for every token stream (ghost stream, arbitrary): each production consumes its closing token on every success path (filter, index, selectArray, "
         "selectObject, function*Arg, parse ends on End), list separators are commas, multi-select keys are identifiers, let bindings are `$name =`; lexer: "
         "decodeRune classification, scanners return exactly expression[start:position] ending in their delimiter, position strictly increases; parseError classification. "
         "white space between tokens is exactly space, tab, LF, CR; every AST node parsed or built ends up in the result (linear ghost: nothing parsed is dropped); arity faults only at separators. "
         "Not covered: completeness (every grammar member compiles); a lone surrogate escape in a quoted identifier is rejected although the grammar admits it.",
         "contracts + VC generation over go/ssa + SMT"),
 'C05': ("Proved: toDecimal is exact per kind and never goes through float for non-float inputs (json.Number through decimal128.Parse of its text); + - * / // % abs ceil floor "
         "and the four comparisons are exactly the decimal128 operation on the operands' decimal values in argument order, Inf/NaN results become ErrInfinity/ErrNotANumber; "
         "equal compares numbers with Decimal.Equal. sum and avg are the left fold of decimal128 addition over the elements' decimal values from zero (avg: divided by the length), with Inf/NaN results turned into errors; unary minus negates the decimal value (zero stays zero) or the float. Assumed: accuracy of decimal128 itself (the 34-digit rounding statement is a property of that library).",
         "contracts + VC generation over go/ssa + SMT"),
 'C08': ("Finite proof over error type tags: each public error type's Is answers for exactly one sentinel; evaluateError/parseError map every internal error type and sentinel to the "
         "specified category (errors.Is modelled by its documented algorithm over the repository's Is/Unwrap methods); Search/Compile/Expression.Search return nil with an error; "
         "Expression.Search never yields a static category. Which internal error each builtin raises for a type fault or a value fault (integer conversion, negative count, pad length, from_items pairs) is pinned by the builtins' own clauses, now also tagged C08. The per-element helpers and &&/|| propagate exactly the error evaluate returned; zip succeeds only if every argument evaluated to an array; find_first/find_last with start and end report an argument of the wrong type or a non-integral argument whatever the other arguments are. Not covered: data-independence flow check; propagation inside the other cases of evaluate.",
         "contracts + VC generation over go/ssa + SMT"),
 'C10': ("Proved: the binding-power table (rank order pipe<or<and<comparison<additive<multiplicative<flatten<wildcard<filter<dot<not<bracket, 0 otherwise); in parser.expression every "
         "operator is consumed only when its power exceeds the caller's and every recursive call passes exactly the consumed operator's power (left associativity), on return the next "
         "token does not bind tighter; prefix operands are parsed with a power >= every binary operator's. Not covered: node construction (Left/Right order), lexer operator spellings, uniqueness meta-lemma A3.",
         "contracts + site assertions + VC generation over go/ssa + SMT"),
 'C12': ("Proved for all lengths and all 64-bit start/stop/step: slice and sliceStep on arrays return exactly the elements of Python's slice.indices walk (count and each element, "
         "nonlinear count identity discharged by SMT); on strings: slice returns exactly the code-point window, sliceStep returns the walk's number of code points on boundaries; "
         "parser.index always closes on `]`; the slice nodes get the written start, the defaults 0 / MaxInt / MinInt for absent start and stop by the sign of the step, decided by the presence of the tokens and not by the values. "
         "Not covered: which code points a stepped string slice selects, the value of a written stop and step.",
         "contracts + loop invariants + VC generation over go/ssa + SMT"),
 'C14': ("Proved: isNumber, isTrue, typeName, toNumber, toDecimal, toFloat, toFloatPair, toInt, equal and the arithmetic/comparison operators are specified only through the numeric "
         "abstraction (isNum/numDec) and hold for every one of the 14 numeric kinds (a forgotten kind fails for that tag). Not covered: float fast path vs decimal path value agreement.",
         "contracts + VC generation over go/ssa + SMT"),
 'C16': ("Proved: the three delimiter scanners skip the character after a backslash, return exactly the text between the delimiters and fail only at end of input or on an undecodable byte; "
         "a validly encoded U+FFFD is an ordinary rune; tokens keep their delimiters so the decoders can strip them safely. a raw string or quoted identifier without a backslash decodes to exactly the text between its delimiters; \\u escapes have four hexadecimal digits, a surrogate pair is two \\u escapes, no raw control characters in quoted identifiers; decoding never lengthens a raw string. Not covered: the value of literals with escapes and the round-trip lemmas.",
         "contracts + VC generation over go/ssa + SMT"),
 'C17': ("Proved at the helper level: filterAndProjectArray keeps exactly the non-null projections of the elements whose filter value is truthy, in order (the composition filter-then-project); "
         "pruneArray equals a projection with the identity; mapArray keeps nulls; isProjectNode; per-case contracts of evaluate for the fused nodes (ProjectArrayNode applies the string short-cut only to slice nodes and yields null for other non-arrays, "
         "the *Current and child forms call the same helper with the same arguments, pipe evaluates the right side on the left result). Not covered: the parser half (which spelling yields which fused node).",
         "contracts + VC generation over go/ssa + SMT"),
 'C19': ("Proved: variableScope.get returns the nearest enclosing binding (recursive ghost lookup over the scope chain, nil receiver handled), new links the parent and stores the bindings unchanged; "
         "every projection helper passes its own scope to evaluate unchanged (the scope is an argument of the evaluate relation in their postconditions); parser.let accepts only `$name = expr` bindings; "
         "lexer keyword/variable tokens; the let case of evaluate evaluates every binding in the outer scope and context, builds a scope whose parent is the outer scope and whose bindings are exactly those values, and evaluates the body in it; "
         "a variable reference returns lookupVal or an UndefinedVariableError.",
         "contracts + VC generation over go/ssa + SMT"),
 'C20': ("Proved: equal computes the specification's deep, type-strict equality specEq (arrays element-wise, objects key-wise with equal cardinality, numbers by decimal value, never across types); "
         "contains uses the same relation; isTrue is false exactly for null, false, empty string/array/object; filter keeps exactly the elements whose predicate value is truthy. "
         "the ==, !=, &&, ||, ! cases of evaluate return mkBool(specEq), its negation, one of the operands unchanged, and mkBool(!truthy). Lemmas proved from the defining axioms of specEq: symmetric, reflexive (numbers: for values that are not NaN) and transitive on scalars, never true across JSON types, and symmetric on arrays provided it is on their elements (the induction step over the nesting depth). The conversion and classification helpers equal calls (toDecimal, and through the support closure every non-recursive callee of a function under this property) are discharged under this property too. Not covered: the object case of these laws (needs cardinality reasoning), the induction over the depth itself.",
         "contracts + VC generation over go/ssa + SMT"),
 'C15': ("Determinism by elimination of its sources in sequential Go, as a sweep over every function reachable from the API: no store to a package-level variable, no go/select/channel instruction, no external callee without a (deterministic, functional) contract, "
         "and every loop over a map (10 of them) must carry a proved invariant tagged C15 that ties what the loop has computed to the set of members visited (let bindings, multi-select hashes, merge, object equality) or, for the permitted enumerations "
         "(keys, values, items, object wildcard), to the number of members visited. Which invariant is adequate is a reviewed choice, not a proved meta-theorem; cross-process equality follows from the absence of address- or time-dependent operations (none in the SSA of the reachable code). The frame obligations (a call writes only memory it allocated) are part of this check: a call that writes into the document or into the AST makes the next evaluation differ.",
         "sweep obligations (map-range loops need order-insensitivity invariants; global stores, concurrency and unmodelled externals are rejected) over go/ssa + SMT"),
 'C18': ("Closure of results under the JSON carriers, as a sweep over every function of the evaluator reachable from the API: every value the library itself turns into an `any` has a carrier type "
         "(bool, string, an integer or float kind, json.Number, decimal, []any, map[string]any) and every decimal or float64 it creates is finite, under the induction hypothesis that every value received "
         "(parameter, callee result, element read from an array or object) is a finite JSON value; by induction over the evaluation every result consists of input values and such created values. The pipe case of evaluate "
         "evaluates the right side on the left result with the same root and scope (search(e2, search(e1, d)) == search(e1 | e2, d) up to the root node). "
         "Assumed: decimal128 parses/unmarshals JSON number text only to finite values; encoding/json accepts these carriers. Not covered: independence of e2 from the root (structural lemma over the AST), serialisation itself.",
         "sweep obligations at every conversion to `any` (carrier type, finiteness under an explicit induction hypothesis) + per-case contract of evaluate, over go/ssa + SMT"),

 'C03': ("Zero-annotation safety sweep over every function reachable from Search/Compile/MustCompile/Expression.Search and over every Error/Is/Unwrap method: one obligation per index, slice, nil dereference, "
         "unchecked type assertion, == on interface values whose common dynamic type may be uncomparable, division, make size, explicit panic and external precondition (e.g. Decimal.Int64 on NaN), proved for all inputs with loop invariants where needed; AST well-formedness "
         "type invariants (children non-nil, slice step non-zero, variadic calls have arguments) are established by the parser and assumed by the evaluator; error structs can be formatted. "
         "Recursion depth is NOT bounded: four known findings (stack exhaustion on deeply nested expressions/data) are reported as KNOWN-FINDING lines. Not covered: panics inside external code beyond the listed external preconditions.",
         "VC generation over go/ssa + SMT (safety obligations), type invariants"),
 'C06': ("Frame/ownership obligations for every store, map update, append, copy and in-place sort in all reachable functions: the target is memory allocated by the same call (reference above the entry watermark) or "
         "explicitly listed in the function's assigns clause; append on a slice with spare capacity must own it; arrays handed to sort/slices.SortFunc are owned; no store to package-level variables; every external callee has a contract. "
         "Search/Compile/Expression.Search return (nil, err) on failure. Not covered: Search == Compile;Search outcome equality (follows from both calling Parse/Evaluate, argued not proved), MustCompile panics iff Parse fails (read off the two-branch body).",
         "frame obligations (watermark freshness) generated over go/ssa + SMT"),
 'C07': ("By reduction (assumption A1 in DESIGN.md): no activation reachable from the API writes memory it did not allocate itself (the C06 frame obligations), none stores to a package-level variable, none uses go/select/channels, "
         "and every external callee carries a contract (an unmodelled callee such as sync.Pool.Get fails an obligation). With A1 this gives race freedom for all interleavings. Correctly synchronised shared state would be rejected (conservative).",
         "frame + global-store + external-effect obligations over go/ssa + SMT; reduction lemma A1 assumed"),
 'C09': ("Proved: every loop annotated with a variant decreases and is bounded by a size-only expression (string length / code-point count / array length / result width) in slice, sliceStep, find*, split*, pad*, reverse and the lexer scanners; "
         "lexer and parser make progress (position / token index strictly increase); allocation sizes are bounded by sizes of existing objects (make and Builder.Grow preconditions). Recursion depth unbounded: known findings. "
         "Termination: every loop that is not a range loop carries a proved variant (sweep: a loop without one fails term.loop<n>); the parser's mutual recursion and its seven loops decrease the measure 'unread bytes + look-ahead tokens that are not the end token', proved from the bodies (Lexer.Next moves forward, every parse function keeps token position + measure from growing); the recursion of evaluate and its ten helpers decreases 2*height(node) (+1), and equal decreases the height of its first argument, under the assumptions (made in this check only) that the AST and the data are finite trees. Relative to callees returning. Not covered: variableScope.get (follows parent pointers), cost of external calls, polynomial composition argument.",
         "decreases/bound clauses + allocation obligations over go/ssa + SMT"),
 'C11': ("Proved with the ghost rune table (code-point boundaries of every string): slice returns exactly the code-point window, sliceStep the right number of code points, length counts code points, split on the empty separator yields one code point per element, "
         "pad_* pads to max(width, code points) and requires a one-code-point pad, find_* results are code-point counts within the subject. Sweep over every function reachable from the API: every string the library turns into a value and every key it puts into an object "
         "starts and ends on code-point boundaries of its text (valid UTF-8 out for valid UTF-8 in) - including the lexer (position and token values stay on boundaries), the literal decoders (raw strings and quoted identifiers keep whole code points; a byte copied "
         "with WriteByte is accounted for together with the bytes that follow it) and the strings kept in the AST. Assumed: the expression text handed to the API is a whole string; A4 (matches of valid needles are boundary aligned), A7; facts about Go's UTF-8 segmentation "
         "(an ASCII byte is never inside a longer unit). find_first/find_last with start and end measure both in code points (rune-table loop invariants; an end between the code-point count and the byte length is clamped - a defect repaired here); sort orders strings by strings.Compare, i.e. by code point for valid UTF-8. Not covered: which code points a stepped slice / reverse selects, ordering of strings beyond byte order.",
         "contracts over a ghost rune table + utf8 sweep obligations + VC generation over go/ssa + SMT"),
 'C13': ("Proved: sort_by calls a stable sort on arrays it owns, Less is strictly the decimal128.Compare / byte order of the keys, Swap swaps items and keys together; the key of every element including a single one is evaluated (caller's scope) and must be a string or number; "
         "max/min return an element value that no other element exceeds (resp. precedes) and fail exactly when a later element has another type; max_by/min_by return an element of the input whose key (the value evaluate yields for it) no other element's key exceeds (resp. precedes), stated over the graph of evaluate. sort succeeds only on arrays whose elements are all strings or all numbers (comparator literals under contract, invariant of the hidden comparison loop of slices.SortFunc), including one-element arrays. Assumed: contract of sort.Stable; slices.SortFunc calls its comparator with every element when there are two or more. sort's result is a rearrangement of the argument (equal length, every element of one occurs in the other) that ascends: no later string precedes an earlier one in code-point order, decimal128.Compare of an earlier and a later number is never positive - from the proved values of the two comparator literals (`pure.cmp`: strings.Compare of the two strings, decimal128.Compare of the two decimal values) and the trusted statement that slices.SortFunc leaves a permutation which ascends under a comparator that is a strict weak order on the elements (assumed only when the type flag says all elements are of one kind). Not covered: that sort_by's result is ordered by key (stability and the Less/Swap contracts are), multiplicities in the rearrangement, extremality for mixed representations.",
         "contracts + loop invariants + VC generation over go/ssa + SMT"),
}
checks = []
for pid, (text, tech) in claimed.items():
    checks.append({
        "property_id": pid,
        "quick_cmd": f"bin/check {pid} --tier quick",
        "thorough_cmd": f"bin/check {pid} --tier thorough",
        "evidence_file": f"/verif/evidence/{pid}.json",
        "replay_cmd_template": "bin/govc replay {path}",
        "engine": "govc",
        "level_claimed": {"category": "proof", "text": text, "design_ref": "DESIGN.md section 5 (" + pid + ")"},
        "level_note": TRUST,
        "technique": tech,
    })
na = [{"property_id": p, "reason": "check under construction in this round; not claimed until its obligations discharge on the unchanged tree"} for p in ids if p not in claimed]
m = {"version": 1,
 "setup_cmd": "cd /verif/govc && env GOFLAGS=-mod=vendor GOPROXY=off GOSUMDB=off GOTOOLCHAIN=local PATH=/opt/veriftools/go1.26.8/bin:$PATH go build -o /verif/bin/govc .",
 "hooks": {"guard": "verif", "enable": "-tags verif (comment-only contracts_verif.go files; read by govc, never compiled into the package)",
           "baseline_off_cmd": "cd /repo && env GOFLAGS=-mod=mod GOPROXY=off GOSUMDB=off GOTOOLCHAIN=local PATH=/opt/veriftools/go1.26.8/bin:$PATH go test -vet=off -count=1 ./...",
           "source_commits": [], "add_only": True},
 "engines": [{"name": "govc", "path": "/verif/govc", "serves_properties": sorted(claimed), "kind_free_text": "VC generator over go/ssa for the real functions in /repo; contracts in //@ comments; obligations discharged by z3 / z3-new / cvc5"}],
 "checks": checks, "not_applicable": na, "notes": "see DESIGN.md"}
import subprocess
try:
    out = subprocess.run(['git','-C','/repo','log','--format=%h %s'],capture_output=True,text=True).stdout.split('\n')
    m['hooks']['source_commits'] = [l.split()[0] for l in out if 'verif hooks' in l or (len(l.split()) > 1 and l.split()[1] == 'verif:')]
except Exception: pass
json.dump(m, open('/verif/MANIFEST.json','w'), indent=1)
print(len(checks), 'claimed;', len(na), 'not applicable')

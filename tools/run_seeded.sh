#!/bin/sh
# usage: tools/run_seeded.sh <seeded-dir> [property ids...]
# Applies the seeded change to /repo, runs the given property checks (default: the property in meta.json),
# prints which obligations fail, and undoes the change straight afterwards.
d="$1"; shift
props="$@"
[ -z "$props" ] && props=$(python3 -c "import json,sys;print(json.load(open('$d/meta.json'))['property'])")
cd /repo || exit 2
git apply --check "/verif/$d/patch.diff" || { echo "patch does not apply"; exit 2; }
git apply "/verif/$d/patch.diff"
cd /verif
for p in $props; do
  echo "== $d under $p"
  timeout 1800 bin/govc check -prop $p -no-evidence 2>&1 | grep "^VIOLATION\|^property=\|^GENERROR\|^KNOWN" | grep -v "^KNOWN" | sed 's/replay=[^ ]* //' | head -12
done
git -C /repo checkout -- . 

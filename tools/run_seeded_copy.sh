#!/bin/sh
# usage: tools/run_seeded_copy.sh <seeded-dir> [property ids...]
# Development helper: like run_seeded.sh but on a scratch copy of /repo's working tree (so that several
# seeded changes can be tried at once and /repo stays untouched). The copy is removed afterwards.
d="$1"; shift
props="$@"
[ -z "$props" ] && props=$(python3 -c "import json,sys;print(json.load(open('/verif/$d/meta.json'))['property'])")
c=/var/tmp/scr/seedrepo.$(basename $d).$$
mkdir -p $c && rsync -a --exclude .git /repo/ $c/ || exit 2
( cd $c && git init -q . >/dev/null 2>&1; git -C $c apply "/verif/$d/patch.diff" ) || { echo "patch does not apply: $d"; rm -rf $c; exit 2; }
cd /verif
for p in $props; do
  echo "== $d under $p"
  timeout 1800 bin/govc check -prop $p -no-evidence -repo $c 2>&1 | grep "^VIOLATION\|^property=\|^GENERROR\|^ENGINE" | sed 's/replay=[^ ]* //' | head -12
done
rm -rf $c

#!/usr/bin/env python3
# Prints the markdown table of DESIGN.md S7 from /verif/seeded/*/meta.json and the last selftest outputs
# (/var/tmp/scr/selftest.<seed>.out, falling back to /var/tmp/scr/seed.<seed>.out).
import json,glob,os,re
rows=[]
for d in sorted(glob.glob('/verif/seeded/*')):
    name=os.path.basename(d)
    m=json.load(open(d+'/meta.json'))
    out=None
    for f in ('/var/tmp/scr/selftest.%s.out'%name,'/var/tmp/scr/seed.%s.out'%name):
        if os.path.exists(f): out=open(f).read(); break
    obls=[]; confirmed=False
    if out:
        for l in out.split('\n'):
            if l.startswith('VIOLATION'):
                mm=re.search(r'obligation=(\S+)',l)
                if mm: obls.append(mm.group(1).split('.',1)[-1] if False else mm.group(1))
                if 'no-failing-input-found' not in l: confirmed=True
    summ=m.get('summary','').replace('\n',' ').replace('|','/')
    summ=re.sub(r'\s+',' ',summ)[:170]
    first=', '.join(obls[:2])+(' (+%d)'%(len(obls)-2) if len(obls)>2 else '')
    rows.append('| %s | %s | %s | %s |'%(name, summ, first if obls else '**missed**', 'input found' if confirmed else ''))
print('| seed | change (agent\'s summary, shortened) | failing obligation(s) | replay |')
print('|---|---|---|---|')
print('\n'.join(rows))

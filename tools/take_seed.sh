#!/bin/sh
# usage: tools/take_seed.sh <worktree-with-_seed> <seed-id>   (e.g. /tmp/r8/wt-C04 C04-agent6)
# Copies a sub-agent's deliverables to seeded/<seed-id>/, confirms them in a scratch worktree (suite passes with the
# change, demonstration fails with it and passes without it), then runs the property's check on a scratch copy.
wt="$1"; id="$2"
export GOFLAGS=-mod=mod GOPROXY=off GOSUMDB=off GOTOOLCHAIN=local PATH=/opt/veriftools/go1.26.8/bin:$PATH
d=/verif/seeded/$id
mkdir -p $d && cp $wt/_seed/patch.diff $wt/_seed/meta.json $d/ && cp $wt/_seed/demo_test.go.txt $d/demo_test.go.txt || { echo "TAKE $id: deliverables missing"; exit 2; }
s=/var/tmp/scr/confirm.$id.$$
mkdir -p /var/tmp/scr && git -C /repo worktree add -q --detach $s HEAD || exit 2
pkg=$(grep -m1 '^package ' $d/demo_test.go.txt | awk '{print $2}')
case "$pkg" in
  jmespath|jmespath_test) dir=.;;
  evaluator|evaluator_test) dir=internal/evaluator;;
  parser|parser_test) dir=internal/parser;;
  lexer|lexer_test) dir=internal/lexer;;
  *) dir=.;;
esac
res=""
( cd $s && git apply $d/patch.diff ) || { echo "TAKE $id: patch does not apply"; git -C /repo worktree remove --force $s; exit 2; }
( cd $s && go build ./... && go test -vet=off -count=1 ./... ) >/tmp/take.$id.suite 2>&1 && res="$res suite-with-change=pass" || res="$res suite-with-change=FAIL"
cp $d/demo_test.go.txt $s/$dir/zz_seed_demo_test.go
( cd $s && go test -vet=off -count=1 -timeout 120s ./$dir/ ) >/tmp/take.$id.demo1 2>&1 && res="$res demo-with-change=PASS(bad)" || res="$res demo-with-change=fail(ok)"
( cd $s && git apply -R $d/patch.diff && go test -vet=off -count=1 -timeout 120s ./$dir/ ) >/tmp/take.$id.demo2 2>&1 && res="$res demo-without-change=pass" || res="$res demo-without-change=FAIL"
git -C /repo worktree remove --force $s
echo "TAKE $id:$res"
cd /verif && tools/run_seeded_copy.sh seeded/$id

#!/usr/bin/env python3
# Generates the per-case "wiring" clauses of evaluator.evaluate for the cases that have the plain shape
#   a1, err := e.evaluate(node.F1, current, variables); if err != nil { return nil, err } ... return helper(a...)
# Prints clauses on stdout and the list of cases that do not have that shape on stderr.
import re,sys
src=open('/repo/internal/evaluator/evaluator.go').read().split('\n')
start=[i for i,l in enumerate(src) if l.startswith('func (e *evaluator) evaluate(')][0]
end=[i for i,l in enumerate(src) if i>start and l=='}'][0]
cases=[]
cur=None
for i in range(start,end):
    l=src[i]
    m=re.match(r'^\tcase (\*?)parser\.(\w+):$',l)
    if m or l.startswith('\tdefault') or l=='\t}':
        if cur: cases.append(cur)
        cur=None
        if m: cur={'ptr':m.group(1)=='*','name':m.group(2),'body':[],'line':i+1}
        continue
    if cur is not None: cur['body'].append(l)
if cur: cases.append(cur)
simple=[];other=[]
for c in cases:
    body=[l.strip() for l in c['body'] if l.strip()]
    i=0;vars_=[];ok=True
    while i<len(body):
        m=re.match(r'^(\w+), err := e\.evaluate\(node\.([\w\[\]0-9]+), current, variables\)$',body[i])
        if m and body[i+1:i+4]==['if err != nil {','return nil, err','}']:
            vars_.append((m.group(1),m.group(2)));i+=4;continue
        break
    rest=body[i:]
    if len(rest)==1:
        m=re.match(r'^return (e\.)?(\w+)\((.*)\)(, nil)?$',rest[0])
        if m:
            simple.append((c,vars_,m.group(1) is not None,m.group(2),[a.strip() for a in m.group(3).split(',')] if m.group(3) else [],m.group(4) is not None));continue
    other.append(c)
def field(T,f):
    m=re.match(r'^(\w+)\[(\d+)\]$',f)
    if m: return 'as(node, "parser.%s").%s[%s]'%(T,m.group(1),m.group(2))
    return 'as(node, "parser.%s").%s'%(T,f)
for c,vars_,meth,helper,args,nilerr in simple:
    T=c['name']
    if not c['ptr']: 
        other.append(c);continue
    names={v:f for v,f in vars_}
    targs=[]
    for a in args:
        if a in names: targs.append('a_'+a)
        elif a=='current': targs.append('current')
        elif a=='variables': targs.append('variables')
        elif a.startswith('node.'): targs.append(field(T,a[5:]))
        else: targs=None;break
    if targs is None:
        other.append(c);continue
    key='evaluator.evaluator.'+helper if meth else 'evaluator.'+helper
    pre=['e'] if meth else []
    if nilerr:
        rel='returns("%s", %s)'%(key,', '.join(pre+targs+['RESULT']))
    else:
        rel='returns("%s", %s)'%(key,', '.join(pre+targs+['result','err']))
    evs=' && '.join('isEv(e.root, %s, current, variables, a_%s)'%(field(T,f),v) for v,f in vars_)
    body=(evs+' && ' if evs else '')+rel
    if vars_:
        body='(exists '+', '.join('a_%s Val'%v for v,_ in vars_)+' :: '+body+')'
    print('SIMPLE',T,helper,nilerr,'|',body)
for c in other:
    sys.stderr.write('OTHER %s line %d\n'%(c['name'],c['line']))
